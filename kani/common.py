"""shared helpers for the bounded Kani side crates (labelled bounded; never counted as proof)"""
import json, os, re, shutil, subprocess, sys, time
HERE = os.path.dirname(os.path.abspath(__file__))
sys.path.insert(0, os.path.dirname(HERE))
REPO = os.environ.get("VERIF_REPO", "/repo")


def run_harness(crate_dir, harness, timeout, extra=()):
    env = dict(os.environ)
    env["CARGO_NET_OFFLINE"] = "true"
    cmd = ["cargo", "kani", "--lib", "--harness", harness, "--output-format", "terse"] + list(extra)
    t0 = time.time()
    try:
        pr = subprocess.run(cmd, capture_output=True, text=True, timeout=timeout, env=env, cwd=crate_dir)
        out = pr.stdout + pr.stderr
        status = "ok" if "VERIFICATION:- SUCCESSFUL" in out else ("failed" if "VERIFICATION:- FAILED" in out else "error")
    except subprocess.TimeoutExpired as e:
        out = ((e.stdout or b"").decode("utf-8", "replace") if isinstance(e.stdout, bytes) else (e.stdout or ""))
        status = "timeout"
    return {"harness": harness, "status": status, "wall_s": round(time.time() - t0, 1), "detail": out[-1800:], "cmd": " ".join(cmd)}


def run_harnesses(crate_dir, harnesses, timeout, extra=()):
    import concurrent.futures as cf
    # build once (cargo serialises on the target dir), then the CBMC runs go in parallel
    first = run_harness(crate_dir, harnesses[0], timeout, extra)
    rest = []
    if len(harnesses) > 1:
        with cf.ThreadPoolExecutor(max_workers=len(harnesses) - 1) as ex:
            rest = list(ex.map(lambda h: run_harness(crate_dir, h, timeout, extra), harnesses[1:]))
    return [first] + rest


def prepare(crate_dir):
    shutil.copyfile(os.path.join(REPO, "Cargo.lock"), os.path.join(crate_dir, "Cargo.lock"))
    os.makedirs(os.path.join(crate_dir, "src"), exist_ok=True)


def summarize(results):
    bad = [r for r in results if r["status"] == "failed"]
    und = [r for r in results if r["status"] not in ("ok", "failed")]
    rep = {"status": "failed" if bad else ("ok" if not und else und[0]["status"]),
           "harnesses": [{k: r[k] for k in ("harness", "status", "wall_s")} for r in results],
           "failed_harnesses": [{"harness": r["harness"], "message": "kani: VERIFICATION FAILED", "detail": r["detail"]} for r in bad],
           "detail": (und[0]["detail"][-400:] if und else "")}
    print(json.dumps(rep))
