#!/usr/bin/env python3
"""vcheck — contract-based deductive verification driver for Galxe/grevm (see DESIGN.md).

  vcheck.py check <Cxx> [--tier quick|thorough]
  vcheck.py unit <Uxx> [--neg] [--show]         (developer aid: one unit, verbose)
  vcheck.py replay <file>
  vcheck.py setup
  vcheck.py ledger                               (regenerate contracts/ledger.json; clean tree only)

Exit codes: 0 held, 1 VIOLATION line(s) printed, 2 undecided / infrastructure (never an alarm).
"""
import argparse
import concurrent.futures as cf
import glob
import hashlib
import json
import os
import re
import subprocess
import sys
import time

HERE = os.path.dirname(os.path.abspath(__file__))
sys.path.insert(0, HERE)
from vlib import build as B           # noqa: E402
from vlib import verus as V           # noqa: E402
from vlib import rustlex as rl        # noqa: E402
from vlib import extras as X          # noqa: E402

CONTRACTS = os.path.join(HERE, "contracts")
# developer aid only (tools/reseed.py): VERIF_OUT redirects every generated file (build/, evidence/, replays/) so that
# runs against a scratch copy of the repository (VERIF_REPO) never touch the registered outputs
_OUT = os.environ.get("VERIF_OUT", HERE)
BUILD = os.path.join(_OUT, "build")
EVID = os.path.join(_OUT, "evidence")
REPLAYS = os.path.join(_OUT, "replays")
LEDGER = os.path.join(CONTRACTS, "ledger.json")
KNOWN = os.path.join(HERE, "known_findings.json")
JOBS = int(os.environ.get("VERIF_JOBS", "16"))


def all_units():
    us = {}
    for d in sorted(glob.glob(os.path.join(CONTRACTS, "U*"))):
        if os.path.exists(os.path.join(d, "unit.toml")):
            u = B.load_unit(d)
            us[u["id"]] = u
    return us


def units_for(prop):
    """units serving `prop`, plus (transitively) every unit they include: an included unit's functions
    are contract-only stubs inside the including unit's parts, so their bodies are verified by running
    the included unit itself."""
    us = all_units()
    sel = [u for u in us.values() if prop in u.get("properties", []) and not u.get("disabled") and not u.get("library")]
    def closure(u):
        out = []
        for inc in u.get("include", []):
            if inc in us:
                out.append(inc)
                out.extend(closure(us[inc]))
        return out
    seen = {u["id"] for u in sel}
    work = list(sel)
    while work:
        u = work.pop()
        for inc in closure(u):
            # an included unit is re-verified here only if it carries obligations of this property;
            # otherwise its contracts are used as stubs and are checked under their own properties
            if inc not in seen and inc in us and prop in us[inc].get("properties", []):
                seen.add(inc)
                sel.append(us[inc])
                work.append(us[inc])
    # a unit included by another selected unit that has no parts is verified there in full
    def closure(u):
        out = []
        for inc in u.get("include", []):
            if inc in us:
                out.append(inc)
                out.extend(closure(us[inc]))
        return out
    full_includers = {inc for u in sel if not u.get("part") for inc in closure(u)}
    return [u for u in sel if u["id"] not in full_includers]


# ------------------------------------------------------------------------------------------------
def call_groups(b):
    """Colour contracted functions so that no function shares a group with one it may call
    (`ensures false` on a callee would make its caller vacuous)."""
    fns = [p for p in b.pieces if p.kind == "fn" and p.has_body and p.fnspec is not None
           and not any(c.kind == "noctl" for c in p.fnspec.clauses)]
    names = {p: p.fnpath.split("::")[-1].rstrip("'") for p in fns}
    calls = {p: set() for p in fns}
    for p in fns:
        body = p.shape.m[p.shape.body_open:p.shape.body_close]
        for q in fns:
            if q is p:
                continue
            if re.search(r"(?<![A-Za-z0-9_])%s\s*(::<[^>]*>)?\s*\(" % re.escape(names[q]), body):
                calls[p].add(q)
    groups = []
    for p in fns:
        placed = False
        for g in groups:
            if all((q not in calls[p]) and (p not in calls[q]) and names[q] != names[p] for q in g):
                g.append(p)
                placed = True
                break
        if not placed:
            groups.append([p])
    return groups


def part_carries(unit_dir, u, part, prop):
    """does this part own a function with an obligation of `prop` (function props or clause tags)?"""
    from vlib.splice import parse_clauses
    cl = os.path.join(unit_dir, "clauses.txt")
    if not os.path.exists(cl):
        return True
    try:
        specs = parse_clauses(open(cl).read(), u["id"])
    except Exception:
        return True
    for fs in specs:
        if fs.path not in part["bodies"]:
            continue
        props = fs.props or u.get("properties", [])
        if prop in props and not any(c.tags for c in fs.clauses):
            return True
        if any(prop in (c.tags or props) for c in fs.clauses if not c.cid.startswith("_")):
            return True
    return False


def run_unit(unit_dir, tag, tier, want_neg=True, only_part=None, prop=None):
    """Build + verify one unit (all its parts). Returns a list of result dicts, one per part."""
    u = B.load_unit(unit_dir)
    parts = u.get("part") or [None]
    if prop is not None and parts != [None] and only_part is None:
        keep = [pt for pt in parts if part_carries(unit_dir, u, pt, prop)]
        if keep:
            parts = keep
    out = []
    with cf.ThreadPoolExecutor(max_workers=max(1, len(parts))) as ex:
        futs = [ex.submit(run_part, unit_dir, tag, tier, want_neg, pt) for pt in parts
                if only_part is None or (pt and pt["name"] == only_part)]
        for f in futs:
            out.append(f.result())
    # every function stubbed in one part must have its body verified in another part
    if parts != [None] and only_part is None:
        verified = set()
        for pt in (u.get("part") or []):
            verified |= set(pt["bodies"])
        for r in out:
            b = r["built"]
            if b is None:
                continue
            for p in b.pieces:
                if p.kind == "stub" and p.fnpath not in verified and not p.opts.get("stub_only") and not getattr(p, "included", False):
                    r["undecided"].append("function %s is stubbed in part %s but verified in no part" % (p.fnpath, r["unit"]))
    return out


PINNED = os.path.join(CONTRACTS, "pinned.json")
_KW = set("as break const continue crate else enum extern false fn for if impl in let loop match mod move mut pub ref return self Self static struct super trait true type unsafe use where while async await dyn".split())


def _tokens(text):
    from vlib.rustlex import mask
    return re.findall(r"[A-Za-z_][A-Za-z0-9_]*|\S", mask(text))


def alpha_renaming(old, new):
    """{old_ident: new_ident} if `new` is `old` under a consistent, injective renaming of identifiers (same token
    sequence otherwise), {} if the texts are token-identical, None if they differ in any other way."""
    a, b = _tokens(old), _tokens(new)
    if len(a) != len(b):
        return None
    mp, inv = {}, {}
    for x, y in zip(a, b):
        if x == y:
            continue
        if not (re.fullmatch(r"[A-Za-z_][A-Za-z0-9_]*", x) and re.fullmatch(r"[A-Za-z_][A-Za-z0-9_]*", y)):
            return None
        if x in _KW or y in _KW:
            return None
        if mp.get(x, y) != y or inv.get(y, x) != x:
            return None
        mp[x], inv[y] = y, x
    # a renamed identifier must be renamed everywhere, and its new name must be fresh
    for x, y in zip(a, b):
        if x == y and (x in mp or x in inv):
            return None
    return mp


POSITIONAL_KINDS = ("before", "after", "tail", "loopstart", "loopend")
_HARD_SCAFFOLD = ("loop_invariant", "loop_ensures", "loop_decreases", "loop_bind", "requires", "closure_ptype", "closure_sig")


def _introduced(text):
    """ghost identifiers a clause declares or assigns"""
    ids = set(re.findall(r"let\s+ghost\s+(?:mut\s+)?([A-Za-z_][A-Za-z0-9_]*)", text))
    ids |= set(re.findall(r"(?<![A-Za-z0-9_.=!<>])([A-Za-z_][A-Za-z0-9_]*)\s*=(?!=)", text)) - {"let", "ghost", "mut"}
    return ids


def _depends_on_lost(f, lost):
    """ids of the lost scaffolding clauses the failed obligation may rest on: every lost invariant / precondition /
    closure annotation of the function, and every lost helper that declares or assigns a ghost name the obligation uses.
    An obligation without a clause of its own (implicit safety obligation) rests on all of them."""
    out = []
    ftext = f.clause.text if f.clause is not None and hasattr(f.clause, "text") else None
    fids = set(re.findall(r"[A-Za-z_][A-Za-z0-9_]*", ftext)) if ftext is not None else None
    for c in lost:
        if c["kind"] in _HARD_SCAFFOLD or fids is None or (_introduced(c["text"]) & fids):
            out.append(c["id"])
    return out


def load_pinned():
    try:
        return json.load(open(PINNED))
    except Exception:
        return {}


def _repairs(bb, run):
    """What the repair loop can do about non-obligation errors of a run: clauses that no longer
    type-check against the (changed) code are dropped like lost anchors; callees the code newly calls are
    extracted as contract-less stubs. Everything else stays an infrastructure error (=> undecided)."""
    drop, extra = set(), []
    unfold = {}
    for it in getattr(run, "infra_items", []):
        if "closures capturing a mutable reference" in it["msg"] and it.get("piece") is not None and it.get("code_off") is not None:
            # changed code moved a mutating call into an Option/Result combinator closure: unfold the combinator (R21)
            unfold.setdefault(it["piece"].fnpath, []).append(it["code_off"])
            continue
        c = it.get("clause")
        if c is not None and getattr(c, "full_id", None):
            drop.add(c.full_id)
            continue
        msg = it["msg"]
        piece = it.get("piece")
        if "type mismatch in closure arguments" in msg and piece is not None and it.get("code_off") is not None \
                and getattr(piece, "fnspec", None) is not None and getattr(piece, "shape", None) is not None:
            # a parameter-type annotation of ours now sits on a different closure (the code gained or lost one):
            # drop the annotations of the closure the compiler points at
            opens = [cl["open"] for cl in piece.shape.closures]
            after = [i for i, o in enumerate(opens) if o >= it["code_off"]]
            if after:
                n = after[0] + 1
                for c2 in piece.fnspec.clauses:
                    if c2.kind in ("closure_ptype", "closure_sig") and c2.args.get("n") == n and getattr(c2, "full_id", None):
                        drop.add(c2.full_id)
                continue
        mt = re.search(r"no method named `(\w+)` found for (?:mutable )?(?:reference|struct) `&?(?:mut )?(\w+)", msg)
        if mt and piece is not None:
            # the new callee may live in another source file of this unit (or of an included unit): look there too
            srcs = [piece.srcspec] + [p2.srcspec for p2 in bb.pieces if getattr(p2, "srcspec", None)]
            src = None
            for sp in dict.fromkeys(x for x in srcs if x and x.startswith("repo:")):
                try:
                    path, _shown = B.resolve_source(sp)
                    sf = B.SourceFile.get(path)
                    if any(m2.name == mt.group(1) for blk in sf.impls(mt.group(2), None) for m2 in sf.methods(blk)):
                        src = sp
                        break
                except Exception:
                    continue
            extra.append({"kind": "methods", "impl": mt.group(2), "names": [mt.group(1)], "stub_only": True,
                          "source": src or (piece.srcspec if piece.srcspec.startswith("repo:") else None), "_auto": True})
            continue
        mt = re.search(r"cannot find function `(\w+)` in this scope", msg)
        if mt and piece is not None:
            extra.append({"kind": "fn", "name": mt.group(1), "stub_only": True,
                          "source": piece.srcspec if piece.srcspec.startswith("repo:") else None, "_auto": True})
    seen, uniq = set(), []
    for e in extra:
        key = (e["kind"], e.get("impl"), tuple(e.get("names") or ()), e.get("name"))
        if e.get("source") and key not in seen:
            seen.add(key)
            uniq.append(e)
    return drop, uniq, unfold


def run_part(unit_dir, tag, tier, want_neg, part):
    name = os.path.basename(unit_dir) + ("_" + part["name"] if part else "")
    bodies = set(part["bodies"]) if part else None
    res = {"unit": name, "undecided": [], "failures": [], "neg": {}, "wall": 0.0}
    t0 = time.time()
    out = os.path.join(BUILD, tag, name + ".rs")
    drop, extra = set(), []
    unfold = {}          # fnpath -> [(offset in the rewritten text, variant)]   (R21, repair only)
    renames = {}         # fnpath -> {old identifier: new identifier}            (alpha-renaming repair)
    if not os.environ.get("VERIF_NO_REPAIR"):
        pinned = load_pinned().get(os.path.basename(unit_dir), {})
        if pinned:
            try:
                b0 = B.build_unit(unit_dir, out, bodies=bodies)
                for p0 in b0.pieces:
                    if p0.kind == "fn" and p0.fnpath in pinned and getattr(p0, "orig", None) and p0.orig != pinned[p0.fnpath]:
                        mp = alpha_renaming(pinned[p0.fnpath], p0.orig)
                        if mp:
                            renames[p0.fnpath] = mp
            except B.Undecided:
                pass
    b = run = None
    for attempt in range(6):
        try:
            b = B.build_unit(unit_dir, out, bodies=bodies, drop_clauses=drop, extra_items=extra, unfold=unfold, renames=renames)
            if bodies is not None:
                have = {p.fnpath for p in b.pieces if p.kind == "fn"}
                for x in bodies - have:
                    raise B.Undecided("%s: part %s lists unknown body %s" % (b.uid, part["name"], x))
        except B.Undecided as e:
            if attempt > 0 and extra:
                extra = []          # the auto-extracted callee could not be built: give up on it
                continue
            res["undecided"].append(str(e))
            res["built"] = None
            return res
        run = V.run_verus(b.path)
        fails, infra = V.classify(b, run)
        d2, e2, u2 = _repairs(b, run)
        if os.environ.get("VERIF_NO_REPAIR") or not infra:
            break
        if unfold and any("mismatched types" in x or "expected enum" in x for x in infra) and \
                any(v == "Result" for sites in unfold.values() for _o, v in sites):
            # the unfolded receiver was an Option, not a Result: retry with the other definition
            unfold = {k: [(o, "Option") for o, _v in sites] for k, sites in unfold.items()}
            continue
        new_unfold = {k: v for k, v in u2.items() if k not in unfold}
        new_drop = d2 - drop
        new_extra = [e for e in e2 if e not in extra]
        if new_unfold:
            # clause drops of the same run are consequences of the rejected closure: unfold first, then look again
            for k, offs in new_unfold.items():
                unfold[k] = [(o, "Result") for o in sorted(set(offs))]
            continue
        if not new_drop and not new_extra:
            break
        drop |= new_drop
        extra += new_extra
    res["built"] = b
    res["run"] = run
    res["failures"] = fails
    res["undecided"].extend(infra)
    for p in b.pieces:
        for (cid, tags, msg) in getattr(p, "lost_clauses", []):
            res["undecided"].append("anchor lost for clause %s (%s)%s" % (cid, msg, "" if tags else " [untagged helper]"))
        for (cid, tags) in getattr(p, "dropped_clauses", []):
            res["undecided"].append("clause %s no longer type-checks against the extracted code and was dropped%s"
                                    % (cid, "" if tags else " [untagged helper]"))
    for p in b.pieces:
        for (cid, tags) in getattr(p, "unfolded_clauses", []):
            res["undecided"].append("closure annotated by clause %s was unfolded (R21: changed code captures a mutable reference in an Option/Result combinator closure)%s"
                                    % (cid, "" if tags else " [untagged helper]"))
    res["renamed"] = {k: v for k, v in renames.items()}
    res["anchor_lost"] = {p.fnpath: list(getattr(p, "anchor_lost", [])) for p in b.pieces if getattr(p, "anchor_lost", None)}
    res["scaffold_lost"] = {p.fnpath: list(getattr(p, "scaffold_lost", [])) for p in b.pieces if getattr(p, "scaffold_lost", None)}
    for e in extra:
        res["undecided"].append("callee %s is not part of this unit: extracted on the fly as a contract-less stub"
                                % (e.get("names") or e.get("name")))
    jobs = {}
    if want_neg and not res["undecided"] and not fails:
        with cf.ThreadPoolExecutor(max_workers=JOBS) as ex:
            for gi, g in enumerate(call_groups(b)):
                paths = {p.fnpath for p in g}
                outn = os.path.join(BUILD, tag, "%s_neg%d.rs" % (name, gi))
                try:
                    bn = B.build_unit(unit_dir, outn, neg_control=paths, bodies=bodies, renames=renames)
                except B.Undecided as e:
                    res["undecided"].append("negative control: %s" % e)
                    continue
                jobs[ex.submit(V.run_verus, bn.path)] = (paths, bn)
            for fut in cf.as_completed(jobs):
                paths, bb = jobs[fut]
                nrun = fut.result()
                nfails, ninfra = V.classify(bb, nrun)
                failed_fns = set()
                for f in nfails:
                    if f.clause is not None and getattr(f.clause, "cid", "") == "_NEG":
                        failed_fns.add(f.piece.fnpath)
                # a function whose `ensures false` query runs out of resources was not proved either
                rlim = [i for i in ninfra if i.startswith("rlimit/timeout")]
                for i in rlim:
                    for p in bb.pieces:
                        if p.kind == "fn" and p.fnpath in paths and p.fnpath.split("::")[-1] in i:
                            failed_fns.add(p.fnpath)
                for pth in paths:
                    res["neg"][pth] = pth in failed_fns
                for i in ninfra:
                    if i not in rlim:
                        res["undecided"].append("negative control: " + i)
    res["wall"] = time.time() - t0
    return res


# ------------------------------------------------------------------------------------------------
def failure_tags(f, b):
    """property tags of a failed obligation, and whether it is a named (ledger) obligation"""
    u_props = b.unit.get("properties", [])

    def fn_props(piece):
        if piece is not None and piece.fnspec is not None and piece.fnspec.props:
            return piece.fnspec.props
        return u_props

    if f.clause is not None:
        c = f.clause
        named = not c.cid.startswith("_")
        tags = list(c.tags)
        if not tags:
            if f.kind == "precondition" and f.code_piece is not None:
                tags = fn_props(f.code_piece)      # failed at a call site inside this function
            elif named:
                tags = fn_props(f.piece)
        return tags, named, c.full_id
    pid = getattr(f, "prelude_id", None)
    if pid:
        tags = pid[1] or (fn_props(f.code_piece) if f.code_piece is not None else u_props)
        return tags, True, pid[0]
    if f.code_piece is not None:
        fn = f.code_piece.fnpath or f.code_piece.label
        return fn_props(f.code_piece), True, "%s.%s.safety[%s]" % (b.uid, fn.split("::")[-1], f.kind)
    return [], False, None


def trusted_scan(b):
    """mechanical scan of the generated file for everything that is assumed rather than proved"""
    m = rl.mask(b.text)
    items = []
    forbidden = []
    for mt in re.finditer(r"#\[verifier::external_body\]\s*(?:#\[[^\]]*\]\s*)*(?:pub\s+)?(?:proof\s+|exec\s+)?(fn|struct)\s+(\w+)", m):
        items.append("external_body %s %s" % (mt.group(1), mt.group(2)))
    for mt in re.finditer(r"assume_specification\s*(?:<[^\[]*>)?\s*\[\s*([^\]]+)\]", m):
        items.append("assume_specification " + re.sub(r"\s+", "", mt.group(1)))
    for mt in re.finditer(r"uninterp\s+spec\s+fn\s+(\w+)", m):
        items.append("uninterp spec fn " + mt.group(1))
    for mt in re.finditer(r"(?<![A-Za-z0-9_])(assume|admit)\s*\(", m):
        forbidden.append("%s( at line %d" % (mt.group(1), m.count("\n", 0, mt.start()) + 1))
    for mt in re.finditer(r"#\[verifier::(external|external_fn_specification|external_type_specification)\]", m):
        items.append("verifier::" + mt.group(1))
    # trait contracts without an extracted implementation are assumed of their implementors
    for p in b.pieces:
        if p.kind == "trait_fn" and not p.has_body and p.fnspec is not None and p.fnspec.clauses:
            items.append("assumed trait contract " + p.fnpath)
        if p.fnspec is not None:
            for c in p.fnspec.clauses:
                if c.kind == "summary":
                    items.append("assumed summary of an interior-mutable effect: %s" % c.full_id)
    seen = []
    for x in items:
        if x not in seen:
            seen.append(x)
    return seen, forbidden


def closed_world(b):
    """DESIGN §3.2: every textual occurrence of a protected field in its source file lies inside an
    extracted function or a listed constructor."""
    problems = []
    for cw in b.unit.get("closed_world", []):
        path, shown = B.resolve_source(cw["source"])
        sf = B.SourceFile.get(path)
        allowed = []
        for p in b.pieces:
            if p.path == path and p.orig is not None and p.kind in ("fn", "struct", "trait_fn") or (p.kind == "stub" and p.path == path and not p.opts.get("stub_only")):
                allowed.append((p.start, p.end))
        for nm in cw.get("also", []):
            # "Type::method" constructor-like functions that may touch the field
            ty, meth = nm.split("::")
            for blk in sf.impls(ty, None):
                for mth in sf.methods(blk):
                    if mth.name == meth:
                        allowed.append((mth.start, mth.end))
        test_ranges = [(it.start, it.end) for it in sf.items if it not in sf.non_test_items()]
        for field in cw["fields"]:
            for mt in re.finditer(r"(?<![A-Za-z0-9_])%s(?![A-Za-z0-9_])" % re.escape(field), sf.m):
                pos = mt.start()
                if any(a <= pos < e for a, e in allowed) or any(a <= pos < e for a, e in test_ranges):
                    continue
                # only field accesses / initialisers matter: `.field` or `field:`
                pj = rl.skip_ws_back(sf.m, pos)
                nx = rl.skip_ws(sf.m, mt.end())
                if sf.m[pj] == "." or sf.m[nx] == ":":
                    line = sf.src.count("\n", 0, pos) + 1
                    problems.append("closed world: field `%s` used outside the extracted functions at %s:%d"
                                    % (field, shown, line))
    return problems


def load_known():
    try:
        return json.load(open(KNOWN))
    except Exception:
        return {"findings": [], "fixed": []}


def load_ledger():
    try:
        return json.load(open(LEDGER))
    except Exception:
        return None


def unit_obligations(b, prop):
    """named obligations of a built unit that carry property `prop`:
    (clause ids, implicit per-function safety ids, assumed preconditions)"""
    u_props = b.unit.get("properties", [])
    named, implicit, assumed = [], [], []
    fn_pieces = [p for p in b.pieces if p.kind in ("fn", "trait_fn")]
    bodies = {p: p.shape.m[p.shape.body_open:p.shape.body_close] for p in fn_pieces if p.has_body}
    for p in fn_pieces:
        fs = p.fnspec
        props = (fs.props if fs is not None and fs.props else u_props)
        short = (p.fnpath or p.label).split("::")[-1]
        if p.has_body and prop in props and fs is not None:
            implicit.append("%s.%s.safety" % (b.uid, short))
        if fs is None:
            continue
        has_caller = any(re.search(r"(?<![A-Za-z0-9_])%s\s*(::<[^>]*>)?\s*\(" % re.escape(short), body)
                         for q, body in bodies.items() if q is not p)
        for c in fs.clauses:
            if c.cid.startswith("_"):
                continue
            tags = c.tags or props
            if prop not in tags:
                continue
            if c.kind in ("requires", "recommends"):
                if has_caller:
                    named.append(c.full_id)
                else:
                    assumed.append(c.full_id)
            elif c.kind in ("ensures", "loop_invariant", "loop_ensures", "before", "after", "loopstart", "loopend", "closure_sig", "start", "tail", "exit"):
                if p.has_body:
                    named.append(c.full_id)
                else:
                    assumed.append(c.full_id + " (trait contract)")
    for ln, (pid, tags) in sorted(b.prelude_ids.items()):
        if prop in (tags or u_props):
            named.append(pid)
    return named, implicit, assumed


def check_property(prop, tier, quiet=False):
    t0 = time.time()
    seed = int(os.environ.get("VERIF_SEED", "0") or 0)
    units = units_for(prop)
    lines = []
    if not units:
        print("no unit serves %s (see MANIFEST.not_applicable)" % prop)
        return 2
    results = []
    with cf.ThreadPoolExecutor(max_workers=max(1, min(len(units), 8))) as ex:
        futs = [ex.submit(run_unit, u["_dir"], prop, tier, True, None, prop) for u in units]
        for f in futs:
            results.extend(f.result())

    undecided, violations, ignored = [], [], []
    obligations, discharged = 0, 0
    functions, trusted, assumptions, samples, rewrites_log, assumed_pre = [], [], [], [], [], []
    neg_summary = {}
    smt_time_ms = 0
    checker_cmds = []
    ledger = load_ledger()
    have_by_unit = {}
    for r in results:
        b = r["built"]
        for x in r["undecided"]:
            undecided.append("%s: %s" % (r["unit"], x))
        if b is None:
            continue
        for x in closed_world(b):
            undecided.append("%s: %s" % (r["unit"], x))
        tb, forbidden = trusted_scan(b)
        for x in forbidden:
            undecided.append("%s: forbidden %s in generated file" % (r["unit"], x))
        trusted.extend("%s: %s" % (b.uid, x) for x in tb)
        named, implicit, assumed = unit_obligations(b, prop)
        assumed_pre.extend(assumed)
        have_by_unit.setdefault(b.uid, set()).update(named)
        have_by_unit[b.uid].update(implicit)
        failed_ids = set()
        for f in r["failures"]:
            tags, is_named, oid = failure_tags(f, b)
            rec = {"unit": b.uid, "obligation": oid, "tags": tags, "failure": f.as_dict()}
            if oid is None:
                undecided.append("%s: failure inside the trusted prelude: %s (%s)" % (b.uid, f.msg, f.where))
            elif not is_named or not tags:
                undecided.append("%s: structural helper clause %s failed (%s): proof broke, property undecided"
                                 % (b.uid, oid, f.msg))
            elif prop in tags:
                fpiece = f.piece if f.piece is not None else f.code_piece
                fn_of = fpiece.fnpath if fpiece is not None else None
                lostsc = r.get("scaffold_lost", {}).get(fn_of) if fn_of else None
                dep = _depends_on_lost(f, lostsc) if lostsc else None
                shape = r.get("anchor_lost", {}).get(fn_of) if fn_of else None
                if not dep and shape and f.clause is not None and getattr(f.clause, "kind", "") in POSITIONAL_KINDS \
                        and os.environ.get("VERIF_POSITIONAL", "strict") == "strict":
                    # an anchor of this function vanished, i.e. its shape changed: an assertion that is tied to a program
                    # point (before/after/tail/loopstart/loopend) may now sit at a point it was not written for
                    dep = ["shape changed: anchors lost for " + ", ".join(shape[:3])]
                if dep and not os.environ.get("VERIF_LOOSE"):
                    # part of this function's proof scaffolding (invariants, ghost declarations, closure annotations,
                    # untagged helpers) no longer applies to the changed code and the failed obligation rests on it:
                    # the failure may be an artefact of the missing scaffolding => undecided, never an alarm
                    undecided.append("%s: obligation %s failed, but it rests on scaffolding of %s that was lost (%s): undecided"
                                     % (b.uid, oid, fn_of, ", ".join(dep[:4])))
                else:
                    violations.append(rec)
                failed_ids.add(re.sub(r"\.safety\[.*\]$", ".safety", oid))
            else:
                ignored.append(rec)
        obligations += len(named) + len(implicit)
        discharged += len([x for x in named + implicit if x not in failed_ids])
        # vacuity: negative control
        for fnp, ok in sorted(r["neg"].items()):
            neg_summary["%s:%s" % (b.uid, fnp)] = ok
            if not ok:
                undecided.append("%s: negative control: `ensures false` on %s was NOT refuted (vacuous contract?)"
                                 % (b.uid, fnp))
        run = r.get("run")
        if run is not None:
            checker_cmds.append(run.cmd)
            fb = V.func_breakdown(run)
            for name, d in fb.items():
                if d.get("time_us"):
                    smt_time_ms += (d["time_us"] or 0) / 1000.0
            try:
                smt_time_ms_total = run.json["times-ms"]["smt"]["total"]
            except Exception:
                smt_time_ms_total = None
        for p in b.pieces:
            if p.kind in ("fn", "trait_fn") and p.orig is not None:
                functions.append({"unit": b.uid, "function": p.fnpath, "source": "%s:%s" % (p.srcspec, p.src_line),
                                  "sha256": p.sha[:16], "contracted": p.fnspec is not None,
                                  "has_body": p.has_body,
                                  "clauses": [c.full_id for c in (p.fnspec.clauses if p.fnspec else []) if not c.cid.startswith("_")]})
            for lg in p.rw_log:
                if lg["rewrite"] in B.EXEC_TOUCHING:
                    rewrites_log.append({"unit": b.uid, "item": p.label, "rewrite": lg["rewrite"],
                                         "edits": lg["edits"]})
        for p in b.pieces:
            if p.fnspec is not None:
                for c in p.fnspec.clauses:
                    if prop in c.tags and len(samples) < 12:
                        samples.append({"id": c.full_id, "kind": c.kind, "text": " ".join(c.text.split())[:300]})
        assumptions.extend("%s: %s" % (b.uid, a) for a in b.unit.get("assumptions", []))

    if ledger is not None:
        for uid, have in sorted(have_by_unit.items()):
            for x in ledger.get(uid, {}).get(prop, []):
                if x not in have:
                    undecided.append("%s: ledger obligation %s (discharged on the pinned tree) is no longer generated" % (uid, x))

    # extras: bounded Kani parts, lemmas, teeth, audits (thorough) -------------------------------
    extras = X.run_extras(prop, tier, units, results)
    undecided.extend(extras.get("undecided", []))
    violations.extend(extras.get("violations", []))

    known = load_known()
    known_for = [k for k in known.get("findings", []) if k.get("property") == prop]
    real_violations = []
    seen_ob = set()
    known_hit = set()
    known_obligations = []
    for v in violations:
        rendered = ((v.get("failure") or {}).get("rendered") or "") + " " + json.dumps((v.get("failure") or {}).get("where", ""))
        # a known finding is identified by its obligation AND the failing site (a substring of the verifier's
        # rendered report, e.g. the source line of the failing exit): another failing site of the same obligation,
        # or the same site under another obligation, is a new violation
        k = next((k for k in known_for if k.get("obligation") == v["obligation"]
                  and (not k.get("site_contains") or k["site_contains"] in rendered)), None)
        if k is not None:
            if v["obligation"] not in known_obligations:
                known_obligations.append(v["obligation"])
            if k["id"] not in known_hit:
                known_hit.add(k["id"])
                lines.append("KNOWN-FINDING: property=%s %s" % (prop, k.get("what", v["obligation"])))
            continue
        key = (v["obligation"], rendered[:400])
        if key in seen_ob:
            continue
        seen_ob.add(key)
        if any(x["obligation"] == v["obligation"] for x in real_violations):
            v = dict(v, obligation_site=len([x for x in real_violations if x["obligation"] == v["obligation"]]) + 1)
        real_violations.append(v)

    os.makedirs(REPLAYS, exist_ok=True)
    for v in real_violations:
        rp = os.path.join(REPLAYS, "%s-%s%s.json" % (prop, re.sub(r"[^A-Za-z0-9_.]+", "_", v["obligation"]),
                                                       (".site%d" % v["obligation_site"]) if v.get("obligation_site") else ""))
        cex = v.get("counterexample")
        with open(rp, "w") as f:
            json.dump({"property": prop, "obligation": v["obligation"], "unit": v["unit"], "tags": v["tags"],
                       "verifier": "verus" if "failure" in v else v.get("verifier"),
                       "failure": v.get("failure"), "counterexample": cex,
                       "replay_cmd": "python3 vcheck.py replay %s" % rp}, f, indent=1)
        lines.append("VIOLATION property=%s replay=%s%s" % (prop, rp, "" if cex else " no-failing-input-found"))

    wall = time.time() - t0
    ev = {
        "property_id": prop, "tier": tier, "seed": seed, "level": "proof",
        "coverage": {
            # an obligation that fails only as a listed known finding is not part of what this run proved: it is taken
            # out of the count and named separately
            "obligations": obligations - len(known_obligations), "discharged": discharged,
            "known_finding_obligations": known_obligations,
            "checker_cmd": "; ".join(sorted(set(re.sub(r"/build/[^/]+/", "/build/<prop>/", c) for c in checker_cmds)))[:4000],
            "trusted_base": sorted(set(trusted)),
            "backend": "Verus 0.2026.09.13 (bundled Z3), one query set per function, rlimit %s" % V.RLIMIT,
            "units": [r["unit"] for r in results],
            "functions_under_contract": functions,
            "samples": samples or [{"note": "no clause tagged for this property"}],
            "smt_time_ms": round(smt_time_ms, 1),
            "negative_control": neg_summary,
            "exec_touching_rewrites": rewrites_log,
            "assumed_preconditions": assumed_pre,
            "failures_tagged_for_other_properties": [x["obligation"] for x in ignored],
            "bounded": extras.get("bounded", []),
            "lemmas": extras.get("lemmas", []),
            "teeth": extras.get("teeth", []),
            "standin_audit": extras.get("audit", []),
            "undecided": undecided,
        },
        "assumptions": sorted(set(assumptions)) + X.GLOBAL_ASSUMPTIONS,
        "wall_s": round(wall, 2),
        "violations": len(real_violations),
        "known_findings_reported": sorted(known_hit),
    }
    os.makedirs(EVID, exist_ok=True)
    with open(os.path.join(EVID, prop + ".json"), "w") as f:
        json.dump(ev, f, indent=1)

    for ln in lines:
        print(ln)
    if real_violations:
        if not quiet:
            for v in real_violations:
                fl = v.get("failure") or {}
                print("  %s [%s] %s" % (v["obligation"], fl.get("kind"), fl.get("source") or ""))
        return 1
    if undecided:
        print("UNDECIDED property=%s (%d reasons; exit 2, no alarm)" % (prop, len(undecided)))
        for x in undecided[:30]:
            print("  - " + x)
        return 2
    if obligations == 0:
        print("UNDECIDED property=%s: zero obligations generated (vacuous)" % prop)
        return 2
    print("OK property=%s tier=%s units=%s obligations=%d discharged=%d%s wall=%.1fs"
          % (prop, tier, ",".join(r["unit"] for r in results), obligations - len(known_obligations), discharged,
             (" known-finding-obligations=%d" % len(known_obligations)) if known_obligations else "", wall))
    return 0


# ------------------------------------------------------------------------------------------------
def cmd_unit(args):
    d = os.path.join(CONTRACTS, args.unit)
    rc = 0
    for r in run_unit(d, "dev", "quick", want_neg=args.neg, only_part=args.part):
        print("---- part", r["unit"])
        rc = max(rc, show_part(r, args))
    return rc


def show_part(r, args):
    b = r["built"]
    for x in r["undecided"]:
        print("UNDECIDED:", x)
    if b is None:
        return 2
    run = r.get("run")
    if run is not None and run.json:
        print("verus:", run.json.get("verification-results"), "wall %.1fs" % run.wall)
    for f in r["failures"]:
        tags, named, oid = failure_tags(f, b)
        print("FAIL %-14s %-40s tags=%s\n     %s" % (f.kind, oid, tags, f.where))
        if args.show:
            print(f.rendered)
    if args.neg:
        bad = [k for k, ok in r["neg"].items() if not ok]
        print("negative control: %d functions, not refuted: %s" % (len(r["neg"]), bad))
    for x in closed_world(b):
        print("UNDECIDED:", x)
    print("generated:", b.path)
    return 0 if not r["failures"] and not r["undecided"] else 1


def cmd_replay(args):
    rp = json.load(open(args.file))
    prop, unit, ob = rp["property"], rp["unit"], rp["obligation"]
    print("replaying %s (%s) on the current tree" % (ob, prop))
    if unit.startswith("U"):
        d = os.path.join(CONTRACTS, unit.split("_")[0])
        hit = False
        for r in run_unit(d, "replay", "quick", want_neg=False):
            b = r["built"]
            for f in (r["failures"] if b is not None else []):
                tags, named, oid = failure_tags(f, b)
                if oid == ob or (oid and re.sub(r"\[.*\]$", "", oid) == re.sub(r"\[.*\]$", "", ob)):
                    hit = True
                    print(f.rendered)
            for x in r["undecided"]:
                print("UNDECIDED:", x)
        if rp.get("counterexample"):
            print("recorded failing input:", json.dumps(rp["counterexample"]))
            X.replay_counterexample(rp)
        print("obligation %s: %s" % (ob, "STILL FAILS" if hit else "discharged on the current tree"))
        return 1 if hit else 0
    return X.replay_other(rp)


def cmd_setup(args):
    os.makedirs(BUILD, exist_ok=True)
    p = os.path.join(BUILD, "warm.rs")
    with open(p, "w") as f:
        f.write("use vstd::prelude::*;\nverus!{ fn f(x: u8) -> (r: u8) ensures r == x { x } }\nfn main(){}\n")
    r = V.run_verus(p)
    ok = bool(r.json and r.json.get("verification-results", {}).get("success"))
    print("verus warm-up:", "ok" if ok else "FAILED", "%.1fs" % r.wall)
    rc = 0 if ok else 2
    for msg in lint_tags():
        print("LINT:", msg)
        rc = 2
    rc = max(rc, X.setup())
    return rc


def lint_tags():
    """every property tag used by a clause of a unit must be listed in the unit's `properties`
    (otherwise the clause would never be checked under that property)"""
    from vlib.splice import parse_clauses
    out = []
    for u in all_units().values():
        cl = os.path.join(u["_dir"], "clauses.txt")
        tags = set()
        if os.path.exists(cl):
            for fs in parse_clauses(open(cl).read(), u["id"]):
                tags |= set(fs.props)
                for c in fs.clauses:
                    tags |= set(c.tags)
        pre = os.path.join(u["_dir"], "prelude.rs")
        if os.path.exists(pre):
            for mt in re.finditer(r"//@ID\s+\S+\s*:\s*([A-Z0-9 ]+)", open(pre).read()):
                tags |= set(mt.group(1).split())
        if u.get("library"):
            continue
        missing = tags - set(u.get("properties", []))
        if missing:
            out.append("%s: tags %s are not in the unit's properties" % (u["id"], sorted(missing)))
    return out


def cmd_ledger(args):
    """regenerate contracts/ledger.json: every obligation id discharged on the current (pinned, clean) tree"""
    st = subprocess.run(["git", "-C", B.REPO, "status", "--porcelain", "--untracked-files=no"], capture_output=True, text=True)
    if st.stdout.strip():
        print("refusing: /repo has uncommitted changes to tracked files")
        return 2
    led = {}
    pinned_out = {}
    for u in all_units().values():
        if u.get("disabled"):
            continue
        led[u["id"]] = {}
        for r in run_unit(u["_dir"], "ledger", "quick", want_neg=False):
            b = r["built"]
            known_obs = {k.get("obligation") for k in load_known().get("findings", [])}
            bad = []
            if b is not None:
                for f in r["failures"]:
                    _t, _n, oid = failure_tags(f, b)
                    if oid not in known_obs:
                        bad.append(oid)
            if b is None or bad or r["undecided"]:
                print("unit %s does not verify; ledger not written: %s %s" % (r["unit"], bad[:3], r["undecided"][:2]))
                return 2
            for pc in b.pieces:
                if pc.kind in ("fn", "stub") and pc.fnpath and getattr(pc, "orig", None):
                    pinned_out.setdefault(os.path.basename(u["_dir"]), {})[pc.fnpath] = getattr(pc, "stub_of", None) or pc.orig
            for p in u.get("properties", []):
                named, implicit, assumed = unit_obligations(b, p)
                cur = led[u["id"]].setdefault(p, [])
                for x in named + implicit:
                    if x not in cur:
                        cur.append(x)
    for uid in led:
        for p in led[uid]:
            led[uid][p].sort()
    with open(LEDGER, "w") as f:
        json.dump(led, f, indent=1, sort_keys=True)
    with open(PINNED, "w") as f:
        json.dump(pinned_out, f, indent=0, sort_keys=True)
    print("ledger written: %d units, %d obligation ids" % (len(led), sum(len(v) for d in led.values() for v in d.values())))
    return 0


def main():
    ap = argparse.ArgumentParser()
    sub = ap.add_subparsers(dest="cmd", required=True)
    c = sub.add_parser("check")
    c.add_argument("prop")
    c.add_argument("--tier", default=os.environ.get("VERIF_TIER", "quick"), choices=["quick", "thorough"])
    c = sub.add_parser("unit")
    c.add_argument("unit")
    c.add_argument("--neg", action="store_true")
    c.add_argument("--show", action="store_true")
    c.add_argument("--part", default=None)
    c = sub.add_parser("replay")
    c.add_argument("file")
    sub.add_parser("setup")
    sub.add_parser("ledger")
    a = ap.parse_args()
    if a.cmd == "check":
        return check_property(a.prop, a.tier)
    if a.cmd == "unit":
        return cmd_unit(a)
    if a.cmd == "replay":
        return cmd_replay(a)
    if a.cmd == "setup":
        return cmd_setup(a)
    if a.cmd == "ledger":
        return cmd_ledger(a)


if __name__ == "__main__":
    try:
        sys.exit(main())
    except B.Undecided as e:
        print("UNDECIDED:", e)
        sys.exit(2)
