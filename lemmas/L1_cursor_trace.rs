// Lemma L1 (DESIGN.md §3.6): pure Verus proof over the spec state machine of one rewindable cursor cell.
// The link from code to this machine is U01's per-function facts (the only writes are CAS c -> c+1 with c < limit
// returning c, and fetch_min) plus single-location coherence: a stated assumption, not a Verus obligation.
use vstd::prelude::*;
verus! {
pub enum Ev { Claim { limit: nat }, Rewind { v: nat } }

/// cell value after the first n events (disabled claims are no-ops: a failed/absent CAS)
pub open spec fn val(t: Seq<Ev>, c0: nat, n: int) -> nat decreases n {
    if n <= 0 { c0 } else {
        let c = val(t, c0, n - 1);
        match t[n - 1] {
            Ev::Claim { limit } => if c < limit { c + 1 } else { c },
            Ev::Rewind { v } => if v < c { v } else { c },
        }
    }
}
/// index handed out by event k, if any
pub open spec fn handed(t: Seq<Ev>, c0: nat, k: int) -> Option<nat> {
    match t[k] { Ev::Claim { limit } => if val(t, c0, k) < limit { Some(val(t, c0, k)) } else { None }, _ => None }
}

/// no claim ever hands out an index at or beyond its limit
pub proof fn lemma_below_limit(t: Seq<Ev>, c0: nat, k: int)
    requires 0 <= k < t.len(), handed(t, c0, k) is Some
    ensures t[k] matches Ev::Claim { limit } && handed(t, c0, k)->Some_0 < limit
{}

/// the cell can only climb through x by handing x out: intermediate-value property
pub proof fn lemma_climb(t: Seq<Ev>, c0: nat, i: int, j: int, x: nat)
    requires 0 <= i <= j <= t.len(), val(t, c0, i) <= x < val(t, c0, j)
    ensures exists|k: int| i <= k < j && handed(t, c0, k) == Some(x)
    decreases j - i
{
    if i == j { }
    else {
        let c = val(t, c0, j - 1);
        if x < c {
            lemma_climb(t, c0, i, j - 1, x);
        } else {
            // val(j-1) <= x < val(j): only a successful claim raises the value, by exactly one
            assert(handed(t, c0, j - 1) == Some(x));
        }
    }
}

/// C15(a): after a rewind to v, the cursor cannot be at or above p again unless every index in
/// [v, p) has been handed out in between (claims concurrent with the rewind included: they are just
/// events of the same modification order).
pub proof fn lemma_rewound_range_reoffered(t: Seq<Ev>, c0: nat, r: int, j: int, x: nat)
    requires 0 <= r < j <= t.len(), t[r] matches Ev::Rewind { v } && v <= x, x < val(t, c0, j)
    ensures exists|k: int| r < k < j && handed(t, c0, k) == Some(x)
{
    assert(val(t, c0, r + 1) <= x);
    lemma_climb(t, c0, r + 1, j, x);
}
} // verus!
fn main() {}
