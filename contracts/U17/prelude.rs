// ================= U17 prelude: TRUSTED stand-ins =================
#[derive(PartialEq, Eq, Structural, Clone, Copy)] pub struct SStoreResult(pub u64);
#[derive(PartialEq, Eq, Structural, Clone, Copy)] pub struct StateLoad<T> { pub data: T, pub is_cold: bool }
impl<T> StateLoad<T> {
    #[verifier::external_body] pub fn map<B, F: FnOnce(T) -> B>(self, f: F) -> (r: StateLoad<B>)
        requires f.requires((self.data,)), ensures f.ensures((self.data,), r.data), r.is_cold == self.is_cold { unimplemented!() }
}
#[derive(PartialEq, Eq, Structural, Clone, Copy)] pub struct EvmInternalsError(pub u64);
#[derive(PartialEq, Eq, Structural, Clone, Copy)] pub struct PrecompileHalt(pub u64);
impl PrecompileHalt { #[verifier::external_body] pub fn other_static(s: &'static str) -> PrecompileHalt { unimplemented!() } }
#[derive(PartialEq, Eq, Structural, Clone, Copy)] pub struct PrecompileError(pub u64);
// verified structural Clone (stands for derive(Clone), which carries no Verus spec for non-Copy types)
impl Clone for ParallelPrecompileError { fn clone(&self) -> (r: Self) ensures r == *self { match self { ParallelPrecompileError::Halt(h) => ParallelPrecompileError::Halt(*h), ParallelPrecompileError::Fatal(e) => ParallelPrecompileError::Fatal(*e) } } }
pub struct JournalAccountView { pub info: AccountInfo }
#[verifier::external_body] pub struct JournalAccountMut<'a> { p: core::marker::PhantomData<&'a u8> }
impl<'a> JournalAccountMut<'a> { #[verifier::external_body] pub fn set_balance(&mut self, b: U256) { unimplemented!() } }
/// alloy EvmInternals: journal facade with a ghost call log (1 = load_account, 2 = sload, 3 = load_account_mut, 4 = sstore)
#[verifier::external_body] pub struct EvmInternals<'a> { p: core::marker::PhantomData<&'a u8> }
impl<'a> EvmInternals<'a> {
    pub uninterp spec fn view(&self) -> Seq<int>;
    pub uninterp spec fn may_mutate(&self) -> bool;
    #[verifier::external_body] pub fn load_account(&mut self, a: Address) -> (r: Result<StateLoad<JournalAccountView>, EvmInternalsError>)
        ensures final(self)@ == old(self)@.push(1), final(self).may_mutate() == old(self).may_mutate() { unimplemented!() }
    #[verifier::external_body] pub fn sload(&mut self, a: Address, k: U256) -> (r: Result<StateLoad<U256>, EvmInternalsError>)
        ensures final(self)@ == old(self)@.push(2), final(self).may_mutate() == old(self).may_mutate() { unimplemented!() }
    #[verifier::external_body] pub fn load_account_mut(&mut self, a: Address) -> (r: Result<StateLoad<JournalAccountMut<'_>>, EvmInternalsError>)
        requires old(self).may_mutate(),      //@ID internals_load_account_mut.P1 : C11
        ensures final(self)@ == old(self)@.push(3), final(self).may_mutate() == old(self).may_mutate() { unimplemented!() }
    #[verifier::external_body] pub fn sstore(&mut self, a: Address, k: U256, v: U256) -> (r: Result<StateLoad<SStoreResult>, EvmInternalsError>)
        requires old(self).may_mutate(),      //@ID internals_sstore.P1 : C11
        ensures final(self)@ == old(self)@.push(4), final(self).may_mutate() == old(self).may_mutate() { unimplemented!() }
}
impl ParallelPrecompileState<'_> {
    spec fn wf(&self) -> bool { self.is_static <==> !self.internals.may_mutate() }
    /// a recorded fault is sticky: the operation returns it, makes no journal call and keeps it
    spec fn sticky<T>(pre: &Self, post: &Self, r: Result<T, ParallelPrecompileError>) -> bool {
        pre.fault matches Some(f) ==> r == Err::<T, ParallelPrecompileError>(f) && post.internals@ == pre.internals@ && post.fault == pre.fault
    }
}

// ---- alloy precompile adapter (to_alloy) ----
#[derive(PartialEq, Eq, Structural, Clone, Copy)] pub struct PrecompileId(pub u64);
impl PrecompileId { pub fn clone(&self) -> (r: Self) ensures r == *self { *self } }
#[derive(PartialEq, Eq, Structural, Clone, Copy)] pub struct PrecompileOutput { pub gas_used: u64, pub halted: Option<PrecompileHalt>, pub reservoir: u64 }
impl PrecompileOutput { pub fn halt(reason: PrecompileHalt, reservoir: u64) -> (r: Self) ensures r.halted == Some(reason), r.reservoir == reservoir { PrecompileOutput { gas_used: 0, halted: Some(reason), reservoir } } }
pub type PrecompileResult = Result<PrecompileOutput, PrecompileError>;
pub struct PrecompileInput<'a> { pub data: &'a [u8], pub gas: u64, pub reservoir: u64, pub caller: Address, pub value: U256, pub target_address: Address, pub is_static: bool, pub bytecode_address: Address, pub internals: EvmInternals<'a> }
/// a restricted precompile implementation (trait object in the real code): may use the facade arbitrarily
#[verifier::external_body] pub struct DynParallelPrecompile { p: u8 }
impl DynParallelPrecompile {
    pub uninterp spec fn id(&self) -> PrecompileId;
    #[verifier::external_body] pub fn precompile_id(&self) -> (r: &PrecompileId) ensures *r == self.id() { unimplemented!() }
    #[verifier::external_body] pub fn clone(&self) -> (r: Self) ensures r == *self { unimplemented!() }
    #[verifier::external_body] pub fn call(&self, input: &mut ParallelPrecompileInput<'_>) -> (r: ParallelPrecompileResult) { unimplemented!() }
}
#[verifier::external_body] pub struct DynPrecompile { p: u8 }
impl DynPrecompile {
    pub uninterp spec fn id(&self) -> PrecompileId;
    /// alloy: a stateful (uncached) precompile from a closure
    #[verifier::external_body] pub fn new_stateful<F: for<'a> Fn(PrecompileInput<'a>) -> PrecompileResult>(id: PrecompileId, f: F) -> (r: Self)
        ensures r.id() == id { unimplemented!() }
}
