// ================= U17 prelude: TRUSTED stand-ins =================
#[derive(PartialEq, Eq, Structural, Clone, Copy)] pub struct SStoreResult(pub u64);
#[derive(PartialEq, Eq, Structural, Clone, Copy)] pub struct StateLoad<T> { pub data: T, pub is_cold: bool }
impl<T> StateLoad<T> {
    #[verifier::external_body] pub fn map<B, F: FnOnce(T) -> B>(self, f: F) -> (r: StateLoad<B>)
        requires f.requires((self.data,)), ensures f.ensures((self.data,), r.data), r.is_cold == self.is_cold { unimplemented!() }
}
#[derive(PartialEq, Eq, Structural, Clone, Copy)] pub struct EvmInternalsError(pub u64);
#[derive(PartialEq, Eq, Structural, Clone, Copy)] pub struct PrecompileHalt(pub u64);
impl PrecompileHalt { #[verifier::external_body] pub fn other_static(s: &'static str) -> PrecompileHalt { unimplemented!() } }
#[derive(PartialEq, Eq, Structural, Clone, Copy)] pub struct PrecompileError(pub u64);
// verified structural Clone (stands for derive(Clone), which carries no Verus spec for non-Copy types)
impl Clone for ParallelPrecompileError { fn clone(&self) -> (r: Self) ensures r == *self { match self { ParallelPrecompileError::Halt(h) => ParallelPrecompileError::Halt(*h), ParallelPrecompileError::Fatal(e) => ParallelPrecompileError::Fatal(*e) } } }
pub struct JournalAccountView { pub info: AccountInfo }
#[verifier::external_body] pub struct JournalAccountMut<'a> { p: core::marker::PhantomData<&'a u8> }
impl<'a> JournalAccountMut<'a> { #[verifier::external_body] pub fn set_balance(&mut self, b: U256) { unimplemented!() } }
/// alloy EvmInternals: journal facade with a ghost call log (1 = load_account, 2 = sload, 3 = load_account_mut, 4 = sstore)
#[verifier::external_body] pub struct EvmInternals<'a> { p: core::marker::PhantomData<&'a u8> }
impl<'a> EvmInternals<'a> {
    pub uninterp spec fn view(&self) -> Seq<int>;
    pub uninterp spec fn may_mutate(&self) -> bool;
    #[verifier::external_body] pub fn load_account(&mut self, a: Address) -> (r: Result<StateLoad<JournalAccountView>, EvmInternalsError>)
        ensures final(self)@ == old(self)@.push(1), final(self).may_mutate() == old(self).may_mutate() { unimplemented!() }
    #[verifier::external_body] pub fn sload(&mut self, a: Address, k: U256) -> (r: Result<StateLoad<U256>, EvmInternalsError>)
        ensures final(self)@ == old(self)@.push(2), final(self).may_mutate() == old(self).may_mutate() { unimplemented!() }
    #[verifier::external_body] pub fn load_account_mut(&mut self, a: Address) -> (r: Result<StateLoad<JournalAccountMut<'_>>, EvmInternalsError>)
        requires old(self).may_mutate(),      //@ID internals_load_account_mut.P1 : C11
        ensures final(self)@ == old(self)@.push(3), final(self).may_mutate() == old(self).may_mutate() { unimplemented!() }
    #[verifier::external_body] pub fn sstore(&mut self, a: Address, k: U256, v: U256) -> (r: Result<StateLoad<SStoreResult>, EvmInternalsError>)
        requires old(self).may_mutate(),      //@ID internals_sstore.P1 : C11
        ensures final(self)@ == old(self)@.push(4), final(self).may_mutate() == old(self).may_mutate() { unimplemented!() }
}
impl ParallelPrecompileState<'_> {
    spec fn wf(&self) -> bool { self.is_static <==> !self.internals.may_mutate() }
    /// a recorded fault is sticky: the operation returns it, makes no journal call and keeps it
    spec fn sticky<T>(pre: &Self, post: &Self, r: Result<T, ParallelPrecompileError>) -> bool {
        pre.fault matches Some(f) ==> r == Err::<T, ParallelPrecompileError>(f) && post.internals@ == pre.internals@ && post.fault == pre.fault
    }
}
