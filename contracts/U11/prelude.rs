// ---- TRUSTED stand-in: revm_state::Account with its flag predicates ----
pub struct Account { pub info: AccountInfo, pub flags: u8 }
impl Account {
    pub uninterp spec fn touched(&self) -> bool; pub uninterp spec fn sd(&self) -> bool; pub uninterp spec fn created(&self) -> bool; pub uninterp spec fn empty(&self) -> bool;
    #[verifier::external_body] pub fn is_touched(&self) -> (b: bool) ensures b == self.touched() { unimplemented!() }
    #[verifier::external_body] pub fn is_selfdestructed(&self) -> (b: bool) ensures b == self.sd() { unimplemented!() }
    #[verifier::external_body] pub fn is_created(&self) -> (b: bool) ensures b == self.created() { unimplemented!() }
    #[verifier::external_body] pub fn is_empty(&self) -> (b: bool) ensures b == self.empty() { unimplemented!() }
}
/// the classification as a total decision table over the four flags (taken from the statements of C07/C08,
/// not from the code's if-chain): untouched => no write; self-destructed => deleted (even if also created);
/// created => created(info); touched-empty => deleted (EIP-161); otherwise updated(info)
pub open spec fn classify(a: &Account) -> FinalizedAccount<'_> {
    match (a.touched(), a.sd(), a.created(), a.empty()) {
        (false, _, _, _) => FinalizedAccount::Unchanged,
        (true, true, _, _) => FinalizedAccount::Deleted,
        (true, false, true, _) => FinalizedAccount::Created(&a.info),
        (true, false, false, true) => FinalizedAccount::Deleted,
        (true, false, false, false) => FinalizedAccount::Updated(&a.info),
    }
}
impl<'a> vstd::std_specs::convert::FromSpecImpl<&'a Account> for FinalizedAccount<'a> {
    open spec fn obeys_from_spec() -> bool { true }
    open spec fn from_spec(a: &'a Account) -> Self { classify(a) }
}
