// ================= U10 prelude =================
// TRUSTED: parking_lot::RwLock. Writers: lock-scoped (the view at acquisition is arbitrary).
// Readers: one fixed abstract value `cur()` per call (DESIGN §3.1).
#[verifier::external_body] #[verifier::reject_recursive_types(T)] pub struct RwLock<T> { x: core::marker::PhantomData<T> }
#[verifier::external_body] #[verifier::reject_recursive_types(T)] pub struct RwLockWriteGuard<'a, T> { x: core::marker::PhantomData<&'a T> }
#[verifier::external_body] #[verifier::reject_recursive_types(T)] pub struct RwLockReadGuard<'a, T> { x: core::marker::PhantomData<&'a T> }
impl<'a, T> RwLockWriteGuard<'a, T> { pub uninterp spec fn view(&self) -> T; pub uninterp spec fn of(&self) -> &'a RwLock<T>; }
impl<'a, T> RwLockReadGuard<'a, T> { pub uninterp spec fn view(&self) -> T; }
impl<T> RwLock<T> {
    pub uninterp spec fn cur(&self) -> T;
    #[verifier::external_body] pub fn write(&self) -> (g: RwLockWriteGuard<'_, T>) ensures g.of() == self { unimplemented!() }
    #[verifier::external_body] pub fn read(&self) -> (g: RwLockReadGuard<'_, T>) ensures g@ == self.cur() { unimplemented!() }
}
impl<'a, T> Deref for RwLockWriteGuard<'a, T> { type Target = T; #[verifier::external_body] fn deref(&self) -> (r: &T) ensures *r == self@ { unimplemented!() } }
impl<'a, T> DerefMut for RwLockWriteGuard<'a, T> { #[verifier::external_body] fn deref_mut(&mut self) -> (r: &mut T) ensures *r == old(self)@, *final(r) == final(self)@, final(self).of() == old(self).of() { unimplemented!() } }
impl<'a, T> Deref for RwLockReadGuard<'a, T> { type Target = T; #[verifier::external_body] fn deref(&self) -> (r: &T) ensures *r == self@ { unimplemented!() } }
// verified inherent clones (derive(Clone) of non-Copy types carries no Verus spec)
impl BeneficiaryEffect { fn clone(&self) -> (r: Self) ensures r == *self {
    match self { BeneficiaryEffect::Unchanged => BeneficiaryEffect::Unchanged, BeneficiaryEffect::Reward(x) => BeneficiaryEffect::Reward(*x), BeneficiaryEffect::Snapshot(a) => BeneficiaryEffect::Snapshot(*a) } } }
impl EntryValue { fn clone(&self) -> (r: Self) ensures r == *self {
    match self { EntryValue::Estimate => EntryValue::Estimate, EntryValue::Exact(e) => EntryValue::Exact(e.clone()) } } }
impl EntryState { fn clone(&self) -> (r: Self) ensures r == *self { EntryState { incarnation: self.incarnation, value: self.value.clone() } } }

// ================= specification vocabulary =================
impl BeneficiaryHistory {
    spec fn val(&self, w: int) -> EntryState { self.entries@[w].state.cur() }
    spec fn exact_nonsnap(&self, w: int) -> bool { match self.val(w).value { EntryValue::Exact(e) => !(e is Snapshot), _ => false } }
    spec fn snap_at(&self, w: int) -> Option<Option<AccountInfo>> { match self.val(w).value { EntryValue::Exact(BeneficiaryEffect::Snapshot(a)) => Some(a), _ => None } }
    /// every entry in [lo, hi) is exact and not a snapshot
    spec fn all_exact_nonsnap(&self, lo: int, hi: int) -> bool { forall|w: int| lo <= w < hi ==> self.exact_nonsnap(w) }
    /// origins of entries hi-1 down to lo (newest first)
    spec fn spec_origins(&self, lo: int, hi: int) -> Seq<TxVersion> decreases hi - lo {
        if hi <= lo { Seq::empty() } else { self.spec_origins(lo + 1, hi).push(TxVersion { txid: lo as usize, incarnation: self.val(lo).incarnation }) }
    }
    spec fn spec_rewards(&self, lo: int, hi: int) -> Seq<DeferredBeneficiaryReward> decreases hi - lo {
        if hi <= lo { Seq::empty() } else {
            match self.val(lo).value { EntryValue::Exact(BeneficiaryEffect::Reward(r)) => self.spec_rewards(lo + 1, hi).push(r), _ => self.spec_rewards(lo + 1, hi) }
        }
    }
}
// ---- journal account + classification (account.rs; real code under contract in U11) ----
pub struct Account { pub info: AccountInfo, pub flags: u8 }
pub enum FinalizedAccount<'a> { Unchanged, Deleted, Created(&'a AccountInfo), Updated(&'a AccountInfo) }
pub uninterp spec fn classify(a: &Account) -> FinalizedAccount<'_>;
impl<'a> From<&'a Account> for FinalizedAccount<'a> { #[verifier::external_body] fn from(a: &'a Account) -> (r: Self) { unimplemented!() } }
impl<'a> vstd::std_specs::convert::FromSpecImpl<&'a Account> for FinalizedAccount<'a> {
    open spec fn obeys_from_spec() -> bool { true }
    open spec fn from_spec(a: &'a Account) -> Self { classify(a) }
}
spec fn effect_of(deferred: Option<DeferredBeneficiaryReward>, account: Option<&Account>) -> BeneficiaryEffect {
    match deferred {
        Some(rw) => BeneficiaryEffect::Reward(rw),
        None => match account {
            None => BeneficiaryEffect::Unchanged,
            Some(a) => match classify(a) {
                FinalizedAccount::Unchanged => BeneficiaryEffect::Unchanged,
                FinalizedAccount::Deleted => BeneficiaryEffect::Snapshot(None),
                FinalizedAccount::Created(i) => BeneficiaryEffect::Snapshot(Some(*i)),
                FinalizedAccount::Updated(i) => BeneficiaryEffect::Snapshot(Some(*i)),
            },
        },
    }
}
// ASSUMED of derive(PartialEq): BeneficiaryReadVersion equality is equality of the origin sequences
impl vstd::std_specs::cmp::PartialEqSpecImpl for BeneficiaryReadVersion {
    open spec fn obeys_eq_spec() -> bool { true }
    closed spec fn eq_spec(&self, o: &BeneficiaryReadVersion) -> bool { self.origins@ == o.origins@ }
}
impl BeneficiaryHistory {
    /// verified: shape of the origin chain (length, newest first, every origin strictly before `hi`)
    proof fn lemma_origins(&self, lo: int, hi: int)
        requires 0 <= lo <= hi <= usize::MAX,
        ensures self.spec_origins(lo, hi).len() == hi - lo,
                forall|k: int| 0 <= k < hi - lo ==> (#[trigger] self.spec_origins(lo, hi)[k]).txid == hi - 1 - k,
        decreases hi - lo,
    {
        if hi > lo {
            self.lemma_origins(lo + 1, hi);
            let inner = self.spec_origins(lo + 1, hi);
            let all = self.spec_origins(lo, hi);
            assert(all == inner.push(TxVersion { txid: lo as usize, incarnation: self.val(lo).incarnation }));
            assert forall|k: int| 0 <= k < hi - lo implies (#[trigger] all[k]).txid == hi - 1 - k by {
                if k < hi - lo - 1 { assert(all[k] == inner[k]); }
            }
        }
    }
}

/// rewards applied oldest first to `base`; `s` is ordered newest first (the order scan_before collects them in)
spec fn fold_oldest_first(base: Option<AccountInfo>, s: Seq<DeferredBeneficiaryReward>) -> Option<AccountInfo> decreases s.len() {
    if s.len() == 0 { base } else { fold_oldest_first(Some(spec_apply_reward(s.last().0, base)), s.drop_last()) }
}
