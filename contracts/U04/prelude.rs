// ================= U04 prelude: TRUSTED stand-ins for what scheduler.rs uses =================
use std::sync::Arc;

// ---- opaque field types of `Scheduler` (never inspected by the extracted functions) ----
pub struct CfgEnv { pub disable_nonce_check: bool, pub spec: u8 }
pub struct BlockNumber(pub u64);
pub struct BlockEnv { pub beneficiary: Address, pub number: BlockNumber }
#[verifier::external_body] #[verifier::reject_recursive_types(DB)] pub struct ParallelState<DB> { p: core::marker::PhantomData<DB> }
pub struct DynParallelPrecompile { pub p: u8 }
pub struct DelegatedSafetyCfg { pub p: u8 }
pub struct GrevmConfig { pub force_sequential: bool, pub min_parallel_txs: usize, pub concurrency_level: usize, pub delegated_safety: DelegatedSafetyCfg }
pub struct ReservePlanner { pub p: u8 }
#[verifier::external_body] #[verifier::reject_recursive_types(T)] pub struct OnceLock<T> { p: core::marker::PhantomData<T> }
impl<T> OnceLock<T> {
    /// first value wins; the closure is consumed
    #[verifier::external_body] pub fn get_or_init<F: FnOnce() -> T>(&self, f: F) -> (r: &T) { unimplemented!() }
    #[verifier::external_body] pub fn get(&self) -> (r: Option<&T>) { unimplemented!() }
}
#[verifier::external_body] pub struct Instant { p: u8 }
pub type Duration = u64;   // only compared against STALL_TIMEOUT (stall logging)
impl Instant {
    #[verifier::external_body] pub fn now() -> Instant { unimplemented!() }
    #[verifier::external_body] pub fn elapsed(&self) -> Duration { unimplemented!() }
}
pub const STALL_TIMEOUT: Duration = 8;
pub mod thread { #[verifier::external_body] pub fn yield_now() { unimplemented!() } }

// ---- metrics: no-ops ----
#[verifier::external_body] pub struct Histogram { p: u8 }
impl Histogram { #[verifier::external_body] pub fn record(&self, v: usize) { unimplemented!() } }
#[verifier::external_body] pub struct ExecuteMetricsCollector { p: u8 }
impl ExecuteMetricsCollector {
    #[verifier::external_body] pub fn dependency_distance_histogram(&self) -> Histogram { unimplemented!() }
    #[verifier::external_body] pub fn record_execution_attempt(&self) { unimplemented!() }
    #[verifier::external_body] pub fn record_validation_attempt(&self) { unimplemented!() }
    #[verifier::external_body] pub fn record_estimate_conflict(&self) { unimplemented!() }
    #[verifier::external_body] pub fn record_beneficiary_conflict(&self) { unimplemented!() }
    #[verifier::external_body] pub fn record_evm_error_conflict(&self) { unimplemented!() }
    #[verifier::external_body] pub fn record_version_conflict(&self) { unimplemented!() }
    #[verifier::external_body] pub fn record_finalized(&self, incarnation: usize, has_dependency: bool) { unimplemented!() }
    #[verifier::external_body] pub fn record_useless_dependency_update(&self) { unimplemented!() }
    #[verifier::external_body] pub fn record_commit_time(&self, d: Duration) { unimplemented!() }
    #[verifier::external_body] pub fn record_execution_time(&self, d: Duration) { unimplemented!() }
}

// ---- WaitSlot (scheduler/wait.rs): notify is an issued fact; wait_while may call the predicate ----
#[verifier::external_body] pub struct WaitSlot { p: u8 }
impl WaitSlot {
    pub uninterp spec fn notified(&self) -> bool;
    #[verifier::external_body] pub fn register_current_thread(&self) { unimplemented!() }
    #[verifier::external_body] pub fn notify(&self) ensures self.notified() { unimplemented!() }
    #[verifier::external_body] pub fn wait_while<F: FnMut() -> bool>(&self, timeout: Duration, blocked: F)
        requires blocked.requires(()) { unimplemented!() }
}

// ---- TxDependency (tx_dependency.rs; real code under contract in U29) ----
#[verifier::external_body] pub struct TxDependency { p: u8 }
impl TxDependency {
    pub uninterp spec fn released(&self, txid: TxId) -> bool;       // issued: remove(txid, _) has been called
    pub uninterp spec fn committed(&self, txid: TxId) -> bool;      // issued: commit(txid)
    pub uninterp spec fn parked(&self, txid: TxId) -> bool;         // issued: add(txid, _) or key_tx(txid, _)
    #[verifier::external_body] pub fn next(&self) -> (r: Option<TxId>) { unimplemented!() }
    #[verifier::external_body] pub fn index(&self) -> usize { unimplemented!() }
    #[verifier::external_body] pub fn remove(&self, txid: TxId, pop_next: bool) -> (r: Option<TxId>)
        ensures self.released(txid), !pop_next ==> r is None, r matches Some(n) ==> n == txid + 1 { unimplemented!() }
    #[verifier::external_body] pub fn commit(&self, txid: TxId) ensures self.committed(txid) { unimplemented!() }
    #[verifier::external_body] pub fn key_tx(&self, txid: TxId, c: PublishedCursorReader<'_>) ensures self.parked(txid) { unimplemented!() }
    #[verifier::external_body] pub fn add(&self, txid: TxId, dep: Option<TxId>)
        requires dep matches Some(d) ==> d < txid,    //@ID TxDependency_add.P1 : C16
        ensures self.parked(txid) { unimplemented!() }
}

// ---- Scheduler well-formedness (what Scheduler::build establishes) ----
impl<DB: DatabaseRef> Scheduler<DB> {
    spec fn wf(&self) -> bool {
        &&& self.scheduler_ctx.wf()
        &&& self.scheduler_ctx.num_txs == self.block_size
        &&& self.tx_states.len() == self.block_size
        &&& self.tx_results.len() == self.block_size
        &&& self.txs.len() == self.block_size
        &&& self.block_size < usize::MAX
        &&& self.abort.may_reset() == false
    }
}
