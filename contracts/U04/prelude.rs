// ================= U04 prelude: TRUSTED stand-ins for what scheduler.rs uses =================
use std::sync::Arc;

// ---- opaque field types of `Scheduler` (never inspected by the extracted functions) ----
#[derive(Clone, Copy)] pub struct CfgEnv { pub disable_nonce_check: bool, pub spec: u8 }
#[derive(Clone, Copy)] pub struct BlockNumber(pub u64);
#[derive(Clone, Copy)] pub struct BlockEnv { pub beneficiary: Address, pub number: BlockNumber }
#[verifier::external_body] #[verifier::reject_recursive_types(DB)] pub struct ParallelState<DB> { p: core::marker::PhantomData<DB> }
pub struct DynParallelPrecompile { pub p: u8 }
#[derive(Clone, Copy)] pub struct DelegatedSafetyConfig { pub forbid_delegated_create: bool, pub reserve_balance: bool }
pub struct GrevmConfig { pub force_sequential: bool, pub min_parallel_txs: usize, pub concurrency_level: usize, pub delegated_safety: DelegatedSafetyConfig }
pub struct ReservePlanner { pub p: u8 }
#[verifier::external_body] #[verifier::reject_recursive_types(T)] pub struct OnceLock<T> { p: core::marker::PhantomData<T> }
impl<T> OnceLock<T> {
    /// one fixed view per call
    pub uninterp spec fn cur(&self) -> Option<T>;
    /// first value wins; the closure is consumed
    #[verifier::external_body] pub fn get_or_init<F: FnOnce() -> T>(&self, f: F) -> (r: &T) { unimplemented!() }
    #[verifier::external_body] pub fn get(&self) -> (r: Option<&T>) ensures (match r { Some(x) => Some(*x), None => None }) == self.cur() { unimplemented!() }
}
#[verifier::external_body] #[derive(Clone, Copy)] pub struct Instant { p: u8 }
pub type Duration = u64;   // only compared against STALL_TIMEOUT (stall logging)
impl Instant {
    #[verifier::external_body] pub fn now() -> Instant { unimplemented!() }
    #[verifier::external_body] pub fn elapsed(&self) -> Duration { unimplemented!() }
}
pub const STALL_TIMEOUT: Duration = 8;
pub mod thread { #[verifier::external_body] pub fn yield_now() { unimplemented!() } }

// ---- metrics: no-ops ----
#[verifier::external_body] pub struct Histogram { p: u8 }
impl Histogram { #[verifier::external_body] pub fn record(&self, v: usize) { unimplemented!() } }
#[verifier::external_body] pub struct ExecuteMetricsCollector { p: u8 }
impl ExecuteMetricsCollector {
    #[verifier::external_body] pub fn dependency_distance_histogram(&self) -> Histogram { unimplemented!() }
    #[verifier::external_body] pub fn record_execution_attempt(&self) { unimplemented!() }
    #[verifier::external_body] pub fn record_validation_attempt(&self) { unimplemented!() }
    #[verifier::external_body] pub fn record_estimate_conflict(&self) { unimplemented!() }
    #[verifier::external_body] pub fn record_beneficiary_conflict(&self) { unimplemented!() }
    #[verifier::external_body] pub fn record_evm_error_conflict(&self) { unimplemented!() }
    #[verifier::external_body] pub fn record_version_conflict(&self) { unimplemented!() }
    #[verifier::external_body] pub fn record_finalized(&self, incarnation: usize, has_dependency: bool) { unimplemented!() }
    #[verifier::external_body] pub fn record_useless_dependency_update(&self) { unimplemented!() }
    #[verifier::external_body] pub fn record_commit_time(&self, d: Duration) { unimplemented!() }
    #[verifier::external_body] pub fn record_execution_time(&self, d: Duration) { unimplemented!() }
}

// ---- WaitSlot (scheduler/wait.rs): notify is an issued fact; wait_while may call the predicate ----
#[verifier::external_body] pub struct WaitSlot { p: u8 }
impl WaitSlot {
    pub uninterp spec fn notified(&self) -> bool;
    #[verifier::external_body] pub fn register_current_thread(&self) { unimplemented!() }
    #[verifier::external_body] pub fn notify(&self) ensures self.notified() { unimplemented!() }
    #[verifier::external_body] pub fn wait_while<F: FnMut() -> bool>(&self, timeout: Duration, blocked: F)
        requires blocked.requires(()) { unimplemented!() }
}

// ---- TxDependency: the real struct and the contracts proved in U29 are included (contract-only stubs here) ----
// ---- Beneficiary (beneficiary.rs / beneficiary/history.rs; real code under contract in U10) ----
pub struct BeneficiaryValidation { pub valid: bool, pub dependency: Option<TxId> }
impl BeneficiaryValidation {
    pub fn is_valid(&self) -> (b: bool) ensures b == self.valid { self.valid }
    pub fn dependency(&self) -> (d: Option<TxId>) ensures d == self.dependency { self.dependency }
}
#[verifier::external_body] pub struct Beneficiary { p: u8 }
impl Beneficiary {
    /// "the whole origin chain recorded by this read is still the current one" (defined by U10)
    pub uninterp spec fn chain_valid(&self, txid: TxId, e: BeneficiaryReadVersion) -> bool;
    pub uninterp spec fn recorded_estimate(&self, v: TxVersion) -> bool;     // issued facts
    pub uninterp spec fn recorded_execution(&self, v: TxVersion) -> bool;
    pub uninterp spec fn invalidated(&self, v: TxVersion) -> bool;
    #[verifier::external_body] pub fn validate(&self, txid: TxId, expected: &BeneficiaryReadVersion) -> (v: BeneficiaryValidation)
        ensures v.valid == self.chain_valid(txid, *expected), v.dependency matches Some(d) ==> d < txid { unimplemented!() }
    #[verifier::external_body] pub fn invalidate(&self, v: &TxVersion) -> (b: bool) ensures b ==> self.invalidated(*v) { unimplemented!() }
    #[verifier::external_body] pub fn record_estimate(&self, v: &TxVersion) -> (b: bool) ensures b ==> self.recorded_estimate(*v) { unimplemented!() }
    #[verifier::external_body] pub fn record_execution(&self, v: &TxVersion, r: &SpeculativeResult) -> (b: bool) ensures b ==> self.recorded_execution(*v) { unimplemented!() }
}

// ---- what "this read is still valid" means (C01 mechanism 2, C02) ----
spec fn valid_read(mv: Map<LocationAndType, BTreeMap<MemoryEntry>>, b: Beneficiary, txid: TxId, loc: LocationAndType, v: ReadVersion) -> bool {
    match v {
        ReadVersion::Beneficiary(e) => b.chain_valid(txid, e),
        _ => {
            let w = if mv.contains_key(loc) { latest_before(mv[loc]@, txid as int) } else { None };
            match w {
                Some(k) => !mv[loc]@[k].estimate && v == ReadVersion::MvMemory(TxVersion { txid: k, incarnation: mv[loc]@[k].incarnation }),
                None => v is Storage,
            }
        }
    }
}

// ---- type invariant of a speculative result w.r.t. the block beneficiary (asserted by the code itself at commit) ----
spec fn sr_ok(sr: SpeculativeResult, b: Address) -> bool {
    sr.deferred_reward is Some ==> !sr.result_and_state.state@.dom().contains(b)
}
spec fn result_ok<E>(v: Option<TransactionResult<E>>, b: Address) -> bool {
    v matches Some(tr) ==> (tr.execute_result matches Ok(sr) ==> sr_ok(sr, b))
}

// ---- Scheduler well-formedness (what Scheduler::build establishes) ----
impl<DB: DatabaseRef> Scheduler<DB> {
    /// issued fact of mark_mv_estimate: the scan over `ws` has been performed for `txid`
    pub uninterp spec fn marked_estimate(&self, txid: TxId, ws: Set<LocationAndType>) -> bool;
    spec fn wf(&self) -> bool {
        &&& self.scheduler_ctx.wf()
        &&& self.scheduler_ctx.num_txs == self.block_size
        &&& self.tx_states.len() == self.block_size
        &&& self.tx_results.len() == self.block_size
        &&& self.txs.len() == self.block_size
        &&& self.block_size < usize::MAX
        &&& self.tx_dependency.wf()
        &&& self.tx_dependency.num() == self.block_size
        &&& forall|i: int, v: Option<TransactionResult<DB::Error>>| 0 <= i < self.block_size && #[trigger] self.tx_results@[i].inv(v) <==> 0 <= i < self.block_size && result_ok(v, self.env.beneficiary)
        // assumed: incarnation counters never reach usize::MAX (one increment per execution attempt)
        &&& forall|i: int, st: TxState| 0 <= i < self.block_size && #[trigger] self.tx_states@[i].inv(st) ==> st.incarnation < usize::MAX
        &&& self.abort.may_reset() == false
        // the replay EVM may only be built from the scheduler's own configuration (call permission of build_evm)
        &&& forall|c: CfgEnv, e: BlockEnv, f: bool| #[trigger] build_args_ok(c, e, f) <==> (c == self.cfg && e == self.env && f == self.config.delegated_safety.forbid_delegated_create)
    }
}

/// call permission of the sequential path's build_evm: which (cfg, block env, guard flag) it may be built from
pub uninterp spec fn build_args_ok(cfg: CfgEnv, env: BlockEnv, forbid: bool) -> bool;
