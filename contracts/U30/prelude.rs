// ================= U30 prelude: TRUSTED stand-ins =================
#[verifier::external_body] pub struct TransitionAccount { p: u8 }
#[verifier::external_body] pub struct BundleState { p: u8 }
#[verifier::external_body] pub struct TransitionState { p: u8 }
impl TransitionState {
    /// issued fact: `add_transitions(ts)` ran and took the state from `before` to `after`
    pub uninterp spec fn added(before: TransitionState, after: TransitionState, ts: Seq<(Address, TransitionAccount)>) -> bool;
    #[verifier::external_body] pub fn add_transitions(&mut self, transitions: Vec<(Address, TransitionAccount)>)
        ensures TransitionState::added(*old(self), *final(self), transitions@) { unimplemented!() }
}
/// what draining / incrementing a cached account returns is a function of that account (and the amount); U14 proves what it is
pub uninterp spec fn drain_of(acc: CacheAccountInfo) -> (u128, TransitionAccount);
pub uninterp spec fn incr_of(acc: CacheAccountInfo, amount: u128) -> Option<TransitionAccount>;
impl<DB: DatabaseRef> ParallelState<DB> {
    /// the commit-side owner does not overwrite cache entries through these operations either
    pub open spec fn wf(&self) -> bool {
        !self.cache.accounts.overwrite_permitted() && !self.cache.storage.overwrite_permitted() && !self.cache.contracts.overwrite_permitted()
        && forall|a: Address, m: DashMap<U256, U256>| #[trigger] self.cache.storage.holds(a, m) ==> !m.overwrite_permitted()
    }
}
/// address `a` was loaded through the committed cache and drained: it reported `bal` and produced `t`
pub open spec fn drain_step(accounts: DashMap<Address, CacheAccountInfo>, a: Address, bal: u128, t: TransitionAccount) -> bool {
    exists|acc: CacheAccountInfo| #[trigger] accounts.holds(a, acc) && drain_of(acc) == (bal, t)
}
/// one drain per address, in argument order: balance i and transition i belong to address i
pub open spec fn drained_all(accounts: DashMap<Address, CacheAccountInfo>, addrs: Seq<Address>, bals: Seq<u128>, ts: Seq<(Address, TransitionAccount)>) -> bool {
    bals.len() == addrs.len() && ts.len() == addrs.len()
    && forall|i: int| 0 <= i < addrs.len() ==> (#[trigger] ts[i]).0 == addrs[i] && drain_step(accounts, addrs[i], bals[i], ts[i].1)
}
/// the non-zero increments, in argument order
pub open spec fn nz(s: Seq<(Address, u128)>) -> Seq<(Address, u128)> decreases s.len() {
    if s.len() == 0 { Seq::empty() } else if s.last().1 != 0 { nz(s.drop_last()).push(s.last()) } else { nz(s.drop_last()) }
}
pub open spec fn incr_step(accounts: DashMap<Address, CacheAccountInfo>, a: Address, amount: u128, t: TransitionAccount) -> bool {
    exists|acc: CacheAccountInfo| #[trigger] accounts.holds(a, acc) && incr_of(acc, amount) == Some(t)
}
/// one transition per non-zero increment, in argument order
pub open spec fn incremented_all(accounts: DashMap<Address, CacheAccountInfo>, want: Seq<(Address, u128)>, ts: Seq<(Address, TransitionAccount)>) -> bool {
    ts.len() == want.len()
    && forall|i: int| 0 <= i < want.len() ==> (#[trigger] ts[i]).0 == want[i].0 && incr_step(accounts, want[i].0, want[i].1, ts[i].1)
}
/// typed views (pin the element type of a Vec whose type rustc only infers from a later `push`)
pub open spec fn trs(v: &Vec<(Address, TransitionAccount)>) -> Seq<(Address, TransitionAccount)> { v@ }
pub open spec fn bls(v: &Vec<u128>) -> Seq<u128> { v@ }
/// effect on the optional transition state of handing it `ts`
pub open spec fn handed(before: Option<TransitionState>, after: Option<TransitionState>, ts: Seq<(Address, TransitionAccount)>) -> bool {
    match before { Some(s0) => (match after { Some(s1) => TransitionState::added(s0, s1, ts), None => false }), None => after is None }
}
