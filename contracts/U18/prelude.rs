// ================= U18 prelude: TRUSTED stand-ins for revm-database's bundle types =================
#[verifier::external_body] proof fn axiom_address_key_model() ensures vstd::std_specs::hash::obeys_key_model::<Address>() {}
#[verifier::external_body] proof fn axiom_b256_key_model() ensures vstd::std_specs::hash::obeys_key_model::<B256>() {}
impl Bytecode { pub fn clone(&self) -> (r: Self) ensures r == *self { *self } }
pub struct BundleAccount { pub id: u64 }
impl BundleAccount { pub uninterp spec fn size(&self) -> usize;
    #[verifier::external_body] pub fn size_hint(&self) -> (r: usize) ensures r == self.size() { unimplemented!() } }
pub struct AccountRevert { pub id: u64 }
impl AccountRevert { pub uninterp spec fn size(&self) -> usize;
    #[verifier::external_body] pub fn size_hint(&self) -> (r: usize) ensures r == self.size() { unimplemented!() } }
/// what revm derives from ONE transition (uninterpreted): a changed contract, the present bundle account, the revert
pub struct TransitionAccount { pub id: u64 }
impl TransitionAccount {
    pub uninterp spec fn new_contract(&self) -> Option<(B256, Bytecode)>;
    pub uninterp spec fn present(&self) -> BundleAccount;
    pub uninterp spec fn revert(&self) -> Option<AccountRevert>;
    #[verifier::external_body] pub fn has_new_contract(&self) -> (r: Option<(B256, &Bytecode)>)
        ensures match r { Some(hc) => self.new_contract() == Some((hc.0, *hc.1)), None => self.new_contract() is None } { unimplemented!() }
    #[verifier::external_body] pub fn present_bundle_account(&self) -> (r: BundleAccount) ensures r == self.present() { unimplemented!() }
    #[verifier::external_body] pub fn create_revert(self) -> (r: Option<AccountRevert>) ensures r == self.revert() { unimplemented!() }
}
pub struct TransitionState { pub transitions: HashMap<Address, TransitionAccount> }
#[derive(PartialEq, Eq, Structural, Clone, Copy)] pub enum BundleRetention { PlainState, Reverts }
impl BundleRetention { pub open spec fn inc(&self) -> bool { *self == BundleRetention::Reverts }
    pub fn includes_reverts(&self) -> (b: bool) ensures b == self.inc() { match self { BundleRetention::Reverts => true, BundleRetention::PlainState => false } } }
pub struct Reverts { pub blocks: Vec<Vec<(Address, AccountRevert)>> }
impl Reverts {
    pub fn is_empty(&self) -> (b: bool) ensures b == (self.blocks@.len() == 0) { self.blocks.len() == 0 }
    pub fn push(&mut self, r: Vec<(Address, AccountRevert)>) ensures final(self).blocks@ == old(self).blocks@.push(r) { self.blocks.push(r); }
}
impl BundleState {
    /// revm-database's own (sequential) merge: used for an occupied bundle; not part of this unit
    #[verifier::external_body] pub fn apply_transitions_and_create_reverts(&mut self, transitions: TransitionState, retention: BundleRetention)
        ensures upstream_merged(*old(self), transitions, retention, *final(self)) { unimplemented!() }
}
pub uninterp spec fn upstream_merged(pre: BundleState, transitions: TransitionState, retention: BundleRetention, post: BundleState) -> bool;
pub struct BundleState { pub state: HashMap<Address, BundleAccount>, pub contracts: HashMap<B256, Bytecode>, pub reverts: Reverts, pub state_size: usize, pub reverts_size: usize }

// ================= the transcribed oracle =================
/// the bundle while one block of transitions is merged: maps, sizes, and the reverts collected for this block
pub struct Acc { pub state: Map<Address, BundleAccount>, pub contracts: Map<B256, Bytecode>, pub state_size: int, pub reverts_size: int, pub reverts: Seq<(Address, AccountRevert)> }
/// revm-database `apply_transitions_and_create_reverts`, Vacant-entry arm, for one (address, transition):
/// a changed contract is recorded; if the transition yields a revert, the present account enters the state and its
/// size is added; the revert is kept (and sized) only when the retention includes reverts
pub open spec fn bundle_step(b: Acc, a: Address, t: TransitionAccount, include: bool) -> Acc {
    let contracts = match t.new_contract() { Some(hc) => b.contracts.insert(hc.0, hc.1), None => b.contracts };
    match t.revert() {
        Some(r) => Acc { state: b.state.insert(a, t.present()), contracts, state_size: b.state_size + t.present().size(),
                         reverts_size: if include { b.reverts_size + r.size() } else { b.reverts_size },
                         reverts: if include { b.reverts.push((a, r)) } else { b.reverts } },
        None => Acc { state: b.state, contracts, state_size: b.state_size, reverts_size: b.reverts_size, reverts: b.reverts },
    }
}
pub open spec fn bundle_fold(b: Acc, ts: Seq<(Address, TransitionAccount)>, n: int, include: bool) -> Acc decreases n {
    if n <= 0 { b } else { bundle_step(bundle_fold(b, ts, n - 1, include), ts[n - 1].0, ts[n - 1].1, include) }
}
pub open spec fn acc_of(s: BundleState) -> Acc {
    Acc { state: s.state@, contracts: s.contracts@, state_size: s.state_size as int, reverts_size: s.reverts_size as int, reverts: Seq::empty() }
}
/// `post` is `pre` after merging the transitions `ts` in that order as one new block of reverts
pub open spec fn merged(pre: BundleState, ts: Seq<(Address, TransitionAccount)>, include: bool, post: BundleState) -> bool {
    let f = bundle_fold(acc_of(pre), ts, ts.len() as int, include);
    post.state@ == f.state && post.contracts@ == f.contracts && post.state_size == f.state_size && post.reverts_size == f.reverts_size
    && post.reverts.blocks@.len() == pre.reverts.blocks@.len() + 1
    && (forall|i: int| 0 <= i < pre.reverts.blocks@.len() ==> post.reverts.blocks@[i] == pre.reverts.blocks@[i])
    && post.reverts.blocks@[pre.reverts.blocks@.len() as int]@ == f.reverts
}
pub open spec fn fits(pre: BundleState, ts: Seq<(Address, TransitionAccount)>, include: bool) -> bool {
    forall|n: int| 0 <= n <= ts.len() ==> (#[trigger] bundle_fold(acc_of(pre), ts, n, include)).state_size <= usize::MAX && bundle_fold(acc_of(pre), ts, n, include).reverts_size <= usize::MAX
}

// ---- what phase 1 prepares for one transition (private: mentions the extracted structs) ----
spec fn account_of(a: Address, present: BundleAccount, r: AccountRevert, inc: bool) -> ProcessedAccount {
    ProcessedAccount { address: a, present, revert: if inc { Some(r) } else { None }, state_size: present.size(), revert_size: if inc { r.size() } else { 0 } }
}
spec fn processed_of(a: Address, t: TransitionAccount, inc: bool) -> ProcessedTransition {
    ProcessedTransition { contract: t.new_contract(), account: match t.revert() { Some(r) => Some(account_of(a, t.present(), r, inc)), None => None } }
}
pub open spec fn acc_now(s: BundleState, reverts: Seq<(Address, AccountRevert)>) -> Acc {
    Acc { state: s.state@, contracts: s.contracts@, state_size: s.state_size as int, reverts_size: s.reverts_size as int, reverts }
}
pub type TPair = (Address, TransitionAccount);
