// ================= U15 prelude: TRUSTED stand-ins =================
#[derive(PartialEq, Eq, Structural, Clone, Copy)]
pub enum AccountStatus { LoadedNotExisting, Loaded, LoadedEmptyEIP161, InMemoryChange, Changed, Destroyed, DestroyedChanged, DestroyedAgain }
impl Default for AccountStatus { fn default() -> (r: Self) { AccountStatus::LoadedNotExisting } }
impl AccountStatus {
    pub uninterp spec fn storage_known(self) -> bool;
    #[verifier::external_body] pub fn is_storage_known(&self) -> (b: bool) ensures b == self.storage_known() { unimplemented!() }
}
impl Bytecode { pub fn clone(&self) -> (r: Self) ensures r == *self { *self } }
pub mod metrics { #[verifier::external_body] pub struct Histogram { p: u8 } impl Histogram { #[verifier::external_body] pub fn record(&self, v: f64) { unimplemented!() } } }
#[verifier::external_body] #[derive(Clone, Copy)] pub struct Instant { p: u8 }
pub struct DurationS { pub p: u8 }
impl Instant { #[verifier::external_body] pub fn now() -> Instant { unimplemented!() } #[verifier::external_body] pub fn elapsed(&self) -> DurationS { unimplemented!() } }
#[verifier::external_body] pub fn duration_micros(d: DurationS) -> f64 { unimplemented!() }
pub struct BuildIdentityHasher { pub p: u8 }

// ---- DashMap ----
#[verifier::external_body] #[verifier::reject_recursive_types(K)] #[verifier::reject_recursive_types(V)] #[verifier::reject_recursive_types(S)]
pub struct DashMap<K, V, S = ()> { p: core::marker::PhantomData<(K, V, S)> }
#[verifier::external_body] #[verifier::reject_recursive_types(K)] #[verifier::reject_recursive_types(V)]
pub struct Ref<'a, K, V> { p: core::marker::PhantomData<&'a (K, V)> }
#[verifier::external_body] #[verifier::reject_recursive_types(K)] #[verifier::reject_recursive_types(V)]
pub struct RefMut<'a, K, V> { p: core::marker::PhantomData<&'a (K, V)> }
#[verifier::external_body] #[verifier::reject_recursive_types(K)] #[verifier::reject_recursive_types(V)]
pub struct OccupiedEntry<'a, K, V> { p: core::marker::PhantomData<&'a (K, V)> }
#[verifier::external_body] #[verifier::reject_recursive_types(K)] #[verifier::reject_recursive_types(V)]
pub struct VacantEntry<'a, K, V> { p: core::marker::PhantomData<&'a (K, V)> }
#[verifier::reject_recursive_types(K)] #[verifier::reject_recursive_types(V)]
pub enum Entry<'a, K, V> { Occupied(OccupiedEntry<'a, K, V>), Vacant(VacantEntry<'a, K, V>) }
impl<'a, K, V> Ref<'a, K, V> { pub uninterp spec fn view(&self) -> V;
    #[verifier::external_body] pub fn value(&self) -> (r: &V) ensures *r == self@ { unimplemented!() } }
impl<'a, K, V> Deref for Ref<'a, K, V> { type Target = V; #[verifier::external_body] fn deref(&self) -> (r: &V) ensures *r == self@ { unimplemented!() } }
impl<'a, K, V> RefMut<'a, K, V> { pub uninterp spec fn view(&self) -> V;
    #[verifier::external_body] pub fn value(&self) -> (r: &V) ensures *r == self@ { unimplemented!() } }
impl<'a, K, V> Deref for RefMut<'a, K, V> { type Target = V; #[verifier::external_body] fn deref(&self) -> (r: &V) ensures *r == self@ { unimplemented!() } }
impl<'a, K, V> DerefMut for RefMut<'a, K, V> { #[verifier::external_body] fn deref_mut(&mut self) -> (r: &mut V) ensures *r == old(self)@, *final(r) == final(self)@ { unimplemented!() } }
impl<'a, K, V> OccupiedEntry<'a, K, V> {
    pub uninterp spec fn view(&self) -> V;
    #[verifier::external_body] pub fn get(&self) -> (r: &V) ensures *r == self@ { unimplemented!() }
    #[verifier::external_body] pub fn into_ref(self) -> (r: RefMut<'a, K, V>) ensures r@ == self@ { unimplemented!() }
}
impl<'a, K, V> VacantEntry<'a, K, V> {
    pub uninterp spec fn key(&self) -> K;
    pub uninterp spec fn map(&self) -> &'a DashMap<K, V>;
    /// the atomic insert-if-absent step
    #[verifier::external_body] pub fn insert(self, v: V) -> (r: RefMut<'a, K, V>) ensures r@ == v, self.map().holds(self.key(), v) { unimplemented!() }
}
impl<'a, K, V> Entry<'a, K, V> {
    #[verifier::external_body] pub fn or_insert(self, v: V) -> (r: RefMut<'a, K, V>)
        ensures match self { Entry::Occupied(e) => r@ == e@, Entry::Vacant(e) => r@ == v && e.map().holds(e.key(), v) } { unimplemented!() }
}
impl<K, V> Default for DashMap<K, V> { #[verifier::external_body] fn default() -> (r: Self) { unimplemented!() } }
impl<K, V, S> DashMap<K, V, S> {
    /// issued fact: at one atomic step during this call the map held `v` at `k`
    pub uninterp spec fn holds(&self, k: K, v: V) -> bool;
    /// plain overwriting inserts are reserved to the owner of committed state
    pub uninterp spec fn overwrite_permitted(&self) -> bool;
}
impl<K, V> DashMap<K, V> {
    #[verifier::external_body] pub fn get(&self, k: &K) -> (r: Option<Ref<'_, K, V>>) ensures r matches Some(x) ==> self.holds(*k, x@) { unimplemented!() }
    #[verifier::external_body] pub fn get_mut(&self, k: &K) -> (r: Option<RefMut<'_, K, V>>) ensures r matches Some(x) ==> self.holds(*k, x@) { unimplemented!() }
    #[verifier::external_body] pub fn entry(&self, k: K) -> (r: Entry<'_, K, V>)
        ensures match r { Entry::Occupied(e) => self.holds(k, e@), Entry::Vacant(e) => e.key() == k && e.map() == self } { unimplemented!() }
    #[verifier::external_body] pub fn insert(&self, k: K, v: V) -> (r: Option<V>)
        requires self.overwrite_permitted(),      //@ID dashmap_insert.P1 : C10
        ensures self.holds(k, v) { unimplemented!() }
    #[verifier::external_body] pub fn contains_key(&self, k: &K) -> bool { unimplemented!() }
}
impl<'a, DB: DatabaseRef> ParallelStateView<'a, DB> {
    /// the shared read view never overwrites an entry of the committed cache
    pub open spec fn wf(&self) -> bool {
        !self.cache.accounts.overwrite_permitted() && !self.cache.storage.overwrite_permitted() && !self.cache.contracts.overwrite_permitted()
        && forall|a: Address, m: DashMap<U256, U256>| #[trigger] self.cache.storage.holds(a, m) ==> !m.overwrite_permitted()
    }
}
/// some inner slot map held at `a` holds `v` at `i` (issued facts of the two atomic steps)
pub open spec fn slot_held(st: DashMap<Address, DashMap<U256, U256>>, a: Address, i: U256, v: U256) -> bool { exists|m: DashMap<U256, U256>| #[trigger] st.holds(a, m) && m.holds(i, v) }
/// how a database answer is classified when it enters the cache (revm State::load_cache_account)
pub open spec fn loaded(info: Option<AccountInfo>) -> CacheAccountInfo {
    match info {
        None => CacheAccountInfo { account: None, status: AccountStatus::LoadedNotExisting },
        Some(acc) => if acc.empty_spec() { CacheAccountInfo { account: Some(AccountInfo::dflt()), status: AccountStatus::LoadedEmptyEIP161 } }
                     else { CacheAccountInfo { account: Some(acc), status: AccountStatus::Loaded } },
    }
}
// as in the source: `impl<DB> Copy for ParallelStateView<'_, DB> {}` and the matching Clone
impl<DB> Copy for ParallelStateView<'_, DB> {}
impl<DB> Clone for ParallelStateView<'_, DB> { fn clone(&self) -> (r: Self) ensures r == *self { *self } }
