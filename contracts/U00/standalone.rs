pub struct SpeculativeResult { pub x: u64 }  // standalone check of U00 only
