// ---- U00: what the model types need from elsewhere ----
use std::collections::{HashMap, HashSet};
#[derive(PartialEq, Eq, Structural, Clone, Copy)] pub struct BeneficiaryReadVersion { pub o: u64 }
// derive(Clone) of a non-Copy type carries no Verus spec: inherent clone (verified, structural) shadows it
impl TxVersion { fn clone(&self) -> (r: Self) ensures r == *self { TxVersion { txid: self.txid, incarnation: self.incarnation } } }
