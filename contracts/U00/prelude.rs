// ---- U00: what the model types need from elsewhere ----
#[derive(PartialEq, Eq, Structural, Clone, Copy)] pub struct BeneficiaryReadVersion { pub o: u64 }
// derive(Clone) of a non-Copy type carries no Verus spec: inherent clone (verified, structural) shadows it
impl TxVersion { fn clone(&self) -> (r: Self) ensures r == *self { TxVersion { txid: self.txid, incarnation: self.incarnation } } }
#[verifier::external_body] proof fn axiom_key_models()
    ensures vstd::std_specs::hash::obeys_key_model::<LocationAndType>(),
            vstd::std_specs::hash::obeys_key_model::<Address>(),
            vstd::std_specs::hash::obeys_key_model::<usize>(),
{}
impl LocationAndType { fn clone(&self) -> (r: Self) ensures r == *self {
    match self { LocationAndType::Basic(a) => LocationAndType::Basic(*a), LocationAndType::Storage(a, s) => LocationAndType::Storage(*a, *s),
                 LocationAndType::StorageReset(a) => LocationAndType::StorageReset(*a), LocationAndType::Code(a) => LocationAndType::Code(*a) } } }
