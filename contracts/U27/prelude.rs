// ================= U27 prelude: TRUSTED stand-ins =================
use std::sync::Arc;
use std::fmt::Debug;
#[derive(Clone, PartialEq, Eq, Structural)] pub struct TxVersion { pub txid: TxId, pub incarnation: usize }
#[derive(PartialEq, Eq, Structural, Clone, Copy)] pub struct TxEnv { pub id: u64 }
pub struct EvmState { pub id: u64 }
pub struct ExecutionResult<H> { pub gas: u64, pub h: core::marker::PhantomData<H> }
pub struct HaltReason { pub p: u8 }
pub struct ResultAndState { pub result: ExecutionResult<HaltReason>, pub state: EvmState }
#[derive(Clone, Copy)] pub struct DeferredBeneficiaryReward(pub U256);
pub struct ReservePlanner { pub p: u8 }
#[derive(PartialEq, Eq, Structural, Clone, Copy)] pub enum BeneficiaryMode { Deferred, Immediate }
pub enum ReserveMode<'a> { NoReserve, WithReserve { txid: TxId, planner: &'a ReservePlanner } }
impl<'a> ReserveMode<'a> {
    /// delegated_safety/handler.rs (proved in U24): the planner decides, the LOGICAL txid is kept
    #[verifier::external_body] pub fn from_planner(txid: TxId, planner: Option<&'a ReservePlanner>) -> (r: Self)
        ensures match planner { Some(p) => r matches ReserveMode::WithReserve { txid: t, planner: q } && t == txid && q == p, None => r is NoReserve } { unimplemented!() }
    pub open spec fn key(&self) -> Option<TxId> { match self { ReserveMode::NoReserve => None, ReserveMode::WithReserve { txid, .. } => Some(*txid) } }
}
pub struct IncarnationAccesses { pub read_set: HashMap<u64, u64>, pub write_set: HashSet<u64>, pub blocking_txs: HashSet<TxId>, pub blocked_by_beneficiary: bool }
/// ghost log of lifecycle steps on one EVM
pub enum Ev { Begin(TxVersion), SetTx(TxEnv), Run(Option<TxId>, BeneficiaryMode), Finalize, Finish(EvmState), Discard }
#[verifier::external_body] #[verifier::reject_recursive_types(DB)] pub struct IncarnationDb<'a, DB> { p: core::marker::PhantomData<&'a DB> }
impl<'a, DB: DatabaseRef> IncarnationDb<'a, DB> {
    pub uninterp spec fn dlog(&self) -> Seq<Ev>;
    #[verifier::external_body] pub fn begin_incarnation(&mut self, v: TxVersion) ensures final(self).dlog() == old(self).dlog().push(Ev::Begin(v)) { unimplemented!() }
    #[verifier::external_body] pub fn finish_incarnation(&mut self, changes: &EvmState) -> (r: IncarnationAccesses) ensures final(self).dlog() == old(self).dlog().push(Ev::Finish(*changes)) { unimplemented!() }
    /// incarnation_db.rs (proved in U12): no writes are published
    #[verifier::external_body] pub fn discard_incarnation(&mut self) -> (r: IncarnationAccesses) ensures final(self).dlog() == old(self).dlog().push(Ev::Discard), r.write_set@.len() == 0, r.read_set@.len() == 0 { unimplemented!() }
}
#[verifier::reject_recursive_types(DB)]
pub struct EvmCtx<DB> { pub db: DB }
#[verifier::reject_recursive_types(DB)]
pub struct GrevmEvm<DB> { pub ctx: EvmCtx<DB> }
impl<'a, DB: DatabaseRef> EvmCtx<IncarnationDb<'a, DB>> {
    #[verifier::external_body] pub fn set_tx(&mut self, tx: TxEnv) ensures final(self).db.dlog() == old(self).db.dlog().push(Ev::SetTx(tx)) { unimplemented!() }
}
/// the EVM's event log lives in its database's log (one sequence for db, ctx and handler steps)
impl<'a, DB: DatabaseRef> GrevmEvm<IncarnationDb<'a, DB>> {
    pub open spec fn elog(&self) -> Seq<Ev> { self.ctx.db.dlog() }
    pub fn db_mut(&mut self) -> (r: &mut IncarnationDb<'a, DB>) ensures *r == old(self).ctx.db, final(self).ctx.db == *final(r) { &mut self.ctx.db }
    #[verifier::external_body] pub fn finalize(&mut self) -> (s: EvmState) ensures final(self).elog() == old(self).elog().push(Ev::Finalize) { unimplemented!() }
}
pub struct GrevmHandler<'a> { pub reserve_mode: ReserveMode<'a>, pub beneficiary_mode: BeneficiaryMode }
impl<'a> GrevmHandler<'a> {
    pub fn new(reserve_mode: ReserveMode<'a>, beneficiary_mode: BeneficiaryMode) -> (r: Self) ensures r.reserve_mode == reserve_mode, r.beneficiary_mode == beneficiary_mode { Self { reserve_mode, beneficiary_mode } }
    #[verifier::external_body] pub fn run<'b, DB: DatabaseRef>(self, evm: &mut GrevmEvm<IncarnationDb<'b, DB>>) -> (r: Result<GrevmHandlerOutput, EVMError<DB::Error>>)
        ensures final(evm).elog() == old(evm).elog().push(Ev::Run(self.reserve_mode.key(), self.beneficiary_mode)) { unimplemented!() }
}
pub assume_specification<T: std::ops::Deref>[ Option::<T>::as_deref ](o: &Option<T>) -> (r: Option<&<T as std::ops::Deref>::Target>)
    ensures r is Some == o is Some;
