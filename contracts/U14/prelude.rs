// ================= U14 prelude: shared vocabulary of both sides (TRUSTED stand-ins) =================
#[derive(PartialEq, Eq, Structural, Clone, Copy)]
pub enum AccountStatus { LoadedNotExisting, Loaded, LoadedEmptyEIP161, InMemoryChange, Changed, Destroyed, DestroyedChanged, DestroyedAgain }
impl Default for AccountStatus { fn default() -> (r: Self) { AccountStatus::LoadedNotExisting } }
impl AccountStatus {
    pub uninterp spec fn sd(self) -> AccountStatus;
    pub uninterp spec fn te(self) -> AccountStatus;
    pub uninterp spec fn cr(self) -> AccountStatus;
    pub uninterp spec fn ch(self, had_no_nonce_and_code: bool) -> AccountStatus;
    #[verifier::external_body] pub fn on_created(&self) -> (r: AccountStatus) ensures r == self.cr() { unimplemented!() }
    #[verifier::external_body] pub fn on_changed(&self, had_no_nonce_and_code: bool) -> (r: AccountStatus) ensures r == self.ch(had_no_nonce_and_code) { unimplemented!() }
    #[verifier::external_body] pub fn on_selfdestructed(&self) -> (r: AccountStatus) ensures r == self.sd() { unimplemented!() }
    #[verifier::external_body] pub fn on_touched_empty_post_eip161(&self) -> (r: AccountStatus) ensures r == self.te() { unimplemented!() }
}
pub struct StorageSlot { pub previous_or_original_value: U256, pub present_value: U256 }
pub type StorageWithOriginalValues = HashMap<U256, StorageSlot>;
pub type PlainStorage = HashMap<U256, U256>;
pub struct TransitionAccount { pub info: Option<AccountInfo>, pub status: AccountStatus, pub previous_info: Option<AccountInfo>, pub previous_status: AccountStatus, pub storage: StorageWithOriginalValues, pub storage_was_destroyed: bool }
pub struct PlainAccount { pub info: AccountInfo, pub storage: PlainStorage }
#[verifier::external_body] proof fn axiom_u256_key_model() ensures vstd::std_specs::hash::obeys_key_model::<U256>() {}

// ---- the ONE common contract (written from revm's documented behaviour) ----
/// the transition produced by a destroying operation: nothing for `silent` pre-statuses, otherwise
/// info None, the new status, the previous info/status, empty storage, storage_was_destroyed
pub open spec fn destroy_transition(r: Option<TransitionAccount>, pre_info: Option<AccountInfo>, pre_status: AccountStatus, post_status: AccountStatus, silent: bool) -> bool {
    if silent { r is None } else {
        r matches Some(t) && t.info is None && t.status == post_status && t.previous_info == pre_info && t.previous_status == pre_status
            && t.storage@.len() == 0 && t.storage_was_destroyed
    }
}
pub open spec fn info_of(b: Option<PlainAccount>) -> Option<AccountInfo> { match b { Some(p) => Some(p.info), None => None } }
pub open spec fn sd_silent(s: AccountStatus) -> bool { s == AccountStatus::LoadedNotExisting }
pub open spec fn te_silent(s: AccountStatus) -> bool { s == AccountStatus::LoadedNotExisting || s == AccountStatus::Destroyed || s == AccountStatus::DestroyedAgain }
/// the relation between grevm's cached account and revm's (same status, same info)
pub open spec fn related(a: CacheAccountInfo, b: CacheAccount) -> bool { a.status == b.status && a.account == info_of(b.account) }
/// corollary (verified from the two contracts alone): related inputs give equal transitions and related outputs
proof fn corollary_selfdestruct(a0: CacheAccountInfo, a1: CacheAccountInfo, ra: Option<TransitionAccount>, b0: CacheAccount, b1: CacheAccount, rb: Option<TransitionAccount>)
    requires related(a0, b0),
        a1.account is None && a1.status == a0.status.sd() && destroy_transition(ra, a0.account, a0.status, a0.status.sd(), sd_silent(a0.status)),
        b1.account is None && b1.status == b0.status.sd() && destroy_transition(rb, info_of(b0.account), b0.status, b0.status.sd(), sd_silent(b0.status)),
    ensures related(a1, b1), ra is None <==> rb is None,   //@ID corollary_selfdestruct : C10
        ra matches Some(x) ==> (rb matches Some(y) && x.info == y.info && x.status == y.status && x.previous_info == y.previous_info && x.previous_status == y.previous_status && x.storage@ =~= y.storage@ && x.storage_was_destroyed == y.storage_was_destroyed),
{}

impl AccountInfo {
    pub uninterp spec fn no_code_and_nonce(&self) -> bool;
    #[verifier::external_body] pub fn has_no_code_and_nonce(&self) -> (b: bool) ensures b == self.no_code_and_nonce() { unimplemented!() }
}
/// the transition produced by creation / change: the new info, the new status, the previous info/status, the
/// storage argument itself, storage not destroyed
pub open spec fn update_transition(t: TransitionAccount, new_info: AccountInfo, pre_info: Option<AccountInfo>, pre_status: AccountStatus, post_status: AccountStatus, storage: StorageWithOriginalValues) -> bool {
    t.info == Some(new_info) && t.status == post_status && t.previous_info == pre_info && t.previous_status == pre_status && t.storage == storage && !t.storage_was_destroyed
}
pub open spec fn had_none(pre_info: Option<AccountInfo>) -> bool { match pre_info { Some(i) => i.no_code_and_nonce(), None => false } }

// ---- U256 -> u128 (ruint's TryFrom): succeeds exactly when the high limb is zero ----
#[derive(Debug)] pub struct FromUintError { pub p: u8 }
impl TryFrom<U256> for u128 { type Error = FromUintError;
    #[verifier::external_body] fn try_from(x: U256) -> (r: Result<u128, FromUintError>) { unimplemented!() } }
impl vstd::std_specs::convert::TryFromSpecImpl<U256> for u128 {
    open spec fn obeys_try_from_spec() -> bool { true }
    open spec fn try_from_spec(x: U256) -> Result<u128, FromUintError> { if x.0 == 0 { Ok(x.1) } else { Err(FromUintError { p: 0 }) } }
}
impl Default for PlainAccount { #[verifier::external_body] fn default() -> (r: Self) ensures r.info == AccountInfo::dflt() { unimplemented!() } }
pub open spec fn or_dflt(o: Option<AccountInfo>) -> AccountInfo { match o { Some(a) => a, None => AccountInfo::dflt() } }
/// the ONE contract of a balance update through account_info_change: every field but the balance kept, the balance
/// as given, status by on_changed, transition with empty storage
pub open spec fn balance_update(post: Option<AccountInfo>, post_status: AccountStatus, t: TransitionAccount, pre: Option<AccountInfo>, pre_status: AccountStatus, new_balance: nat) -> bool {
    post matches Some(n) && n.balance@ == new_balance && n.nonce == or_dflt(pre).nonce && n.code_hash == or_dflt(pre).code_hash && n.code == or_dflt(pre).code
    && post_status == pre_status.ch(had_none(pre))
    && t.info == post && t.status == post_status && t.previous_info == pre && t.previous_status == pre_status && t.storage@.len() == 0 && !t.storage_was_destroyed
}
pub open spec fn sat_add(a: nat, b: nat) -> nat { if a + b <= u256_max() { a + b } else { u256_max() } }
