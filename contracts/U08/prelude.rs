// ================= U08 prelude: TRUSTED stand-ins for revm context traits =================
#[derive(PartialEq, Eq, Structural, Clone, Copy)] pub struct CfgSpec(pub SpecId);
impl CfgSpec { pub fn clone(&self) -> (r: Self) ensures r == *self { *self } }
impl From<CfgSpec> for SpecId { fn from(x: CfgSpec) -> (r: SpecId) { x.0 } }
impl vstd::std_specs::convert::FromSpecImpl<CfgSpec> for SpecId { open spec fn obeys_from_spec() -> bool { true } open spec fn from_spec(x: CfgSpec) -> SpecId { x.0 } }
pub struct Gas { pub used_: u64, pub reservoir_: u64 }
impl Gas { pub fn used(&self) -> (r: u64) ensures r == self.used_ { self.used_ } pub fn reservoir(&self) -> (r: u64) ensures r == self.reservoir_ { self.reservoir_ } }
pub trait Cfg { spec fn fee_disabled(&self) -> bool; spec fn spec_id(&self) -> SpecId;
    fn is_fee_charge_disabled(&self) -> (b: bool) ensures b == self.fee_disabled();
    fn spec(&self) -> (s: &CfgSpec) ensures s.0 == self.spec_id(); }
pub trait Block { spec fn basefee_spec(&self) -> u64; spec fn beneficiary_spec(&self) -> Address;
    fn basefee(&self) -> (b: u64) ensures b == self.basefee_spec();
    fn beneficiary(&self) -> (a: Address) ensures a == self.beneficiary_spec(); }
pub trait Transaction { spec fn egp(&self, basefee: u128) -> u128;
    fn effective_gas_price(&self, basefee: u128) -> (p: u128) ensures p == self.egp(basefee); }
pub struct EvmState { pub p: u8 }
impl EvmState {
    pub uninterp spec fn has(&self, a: Address) -> bool;
    #[verifier::external_body] pub fn contains_key(&self, a: &Address) -> (b: bool) ensures b == self.has(*a) { unimplemented!() }
}
pub trait JournalTr { type State;
    spec fn state_s(&self) -> Self::State;
    fn evm_state(&self) -> (s: &Self::State) ensures *s == self.state_s(); }
pub struct FrameResult { pub gas_: Gas }
impl FrameResult { pub fn gas(&self) -> (g: &Gas) ensures *g == self.gas_ { &self.gas_ } }
/// std Cell: `set` is call-permission guarded (DESIGN §3.4) and leaves an issued fact
#[verifier::external_body] #[verifier::reject_recursive_types(T)] pub struct Cell<T> { p: core::marker::PhantomData<T> }
impl<T> Cell<T> {
    pub uninterp spec fn may_set(&self, v: T) -> bool;
    pub uninterp spec fn was_set(&self, v: T) -> bool;
    #[verifier::external_body] pub fn set(&self, v: T) requires self.may_set(v), ensures self.was_set(v) { unimplemented!() }   //@ID cell_set.P1 : C07
}
pub trait Database { type Error; }
pub trait ContextTr {
    type Cfg: Cfg; type Block: Block; type Tx: Transaction; type Journal: JournalTr; type Db: Database;
    /// ghost: how often upstream's reward hook has been run on this context
    spec fn hook_calls(&self) -> nat;
    spec fn journal_s(&self) -> Self::Journal;
    fn journal(&self) -> (r: &Self::Journal) ensures *r == self.journal_s();
    spec fn cfg_s(&self) -> Self::Cfg; spec fn block_s(&self) -> Self::Block; spec fn tx_s(&self) -> Self::Tx;
    fn cfg(&self) -> (r: &Self::Cfg) ensures *r == self.cfg_s();
    fn block(&self) -> (r: &Self::Block) ensures *r == self.block_s();
    fn tx(&self) -> (r: &Self::Tx) ensures *r == self.tx_s();
}
// ---- transcribed oracle: revm-handler post_execution::reward_beneficiary (what it credits, or None if it returns early) ----
pub open spec fn reward_amount(disabled: bool, london: bool, basefee: u64, egp: u128, used: u64, reservoir: u64) -> Option<nat> {
    if disabled { None } else {
        let bf = basefee as u128;
        let p: nat = if london { if egp >= bf { (egp - bf) as nat } else { 0 } } else { egp as nat };
        let u: nat = if used >= reservoir { (used - reservoir) as nat } else { 0 };
        Some(p * u)
    }
}

pub trait EvmTr { type Context: ContextTr;
    spec fn ctx_s(&self) -> Self::Context;
    fn ctx_ref(&self) -> (c: &Self::Context) ensures *c == self.ctx_s();
    fn ctx(&mut self) -> (c: &mut Self::Context) ensures *c == old(self).ctx_s(), final(self).ctx_s() == *final(c); }
pub trait EvmTrError<EVM: EvmTr>: From<<<EVM::Context as ContextTr>::Db as Database>::Error> {}
pub mod post_execution {
    use super::*;
    /// upstream revm-handler hook (assumed): one more hook run on this context; everything the reward
    /// formula reads is unchanged
    #[verifier::external_body]
    pub fn reward_beneficiary<CTX: ContextTr>(context: &mut CTX, gas: &Gas) -> (r: Result<(), <CTX::Db as Database>::Error>)
        ensures final(context).hook_calls() == old(context).hook_calls() + 1,
                final(context).cfg_s() == old(context).cfg_s(), final(context).block_s() == old(context).block_s(), final(context).tx_s() == old(context).tx_s()
    { unimplemented!() }
}
/// what the formula yields on this context (None: fee charging disabled)
spec fn ctx_reward<CTX: ContextTr>(c: CTX, g: Gas) -> Option<nat> {
    let bf = c.block_s().basefee_spec() as u128;
    reward_amount(c.cfg_s().fee_disabled(), c.cfg_s().spec_id().enabled(SpecId::LONDON), c.block_s().basefee_spec(), c.tx_s().egp(bf), g.used_, g.reservoir_)
}
