// ================= U08 prelude: TRUSTED stand-ins for revm context traits =================
pub const KECCAK_EMPTY: B256 = B256(0xc5d2);
impl AccountInfo { pub open spec fn dflt() -> AccountInfo { AccountInfo { balance: U256::ZERO, nonce: 0, code_hash: KECCAK_EMPTY, code: Some(Bytecode(0)) } } }
impl Default for AccountInfo { fn default() -> (r: Self) ensures r == AccountInfo::dflt() { AccountInfo { balance: U256::ZERO, nonce: 0, code_hash: KECCAK_EMPTY, code: Some(Bytecode(0)) } } }
#[derive(PartialEq, Eq, Structural, Clone, Copy)]
pub enum SpecId { FRONTIER, LONDON, PRAGUE }
impl SpecId {
    pub uninterp spec fn enabled(self, o: SpecId) -> bool;
    #[verifier::external_body] pub fn is_enabled_in(self, o: SpecId) -> (b: bool) ensures b == self.enabled(o) { unimplemented!() }
    pub fn clone(&self) -> (r: Self) ensures r == *self { *self }
}
#[derive(PartialEq, Eq, Structural, Clone, Copy)] pub struct CfgSpec(pub SpecId);
impl CfgSpec { pub fn clone(&self) -> (r: Self) ensures r == *self { *self } }
impl From<CfgSpec> for SpecId { fn from(x: CfgSpec) -> (r: SpecId) { x.0 } }
impl vstd::std_specs::convert::FromSpecImpl<CfgSpec> for SpecId { open spec fn obeys_from_spec() -> bool { true } open spec fn from_spec(x: CfgSpec) -> SpecId { x.0 } }
pub struct Gas { pub used_: u64, pub reservoir_: u64 }
impl Gas { pub fn used(&self) -> (r: u64) ensures r == self.used_ { self.used_ } pub fn reservoir(&self) -> (r: u64) ensures r == self.reservoir_ { self.reservoir_ } }
pub trait Cfg { spec fn fee_disabled(&self) -> bool; spec fn spec_id(&self) -> SpecId;
    fn is_fee_charge_disabled(&self) -> (b: bool) ensures b == self.fee_disabled();
    fn spec(&self) -> (s: &CfgSpec) ensures s.0 == self.spec_id(); }
pub trait Block { spec fn basefee_spec(&self) -> u64; spec fn beneficiary_spec(&self) -> Address;
    fn basefee(&self) -> (b: u64) ensures b == self.basefee_spec();
    fn beneficiary(&self) -> (a: Address) ensures a == self.beneficiary_spec(); }
pub trait Transaction { spec fn egp(&self, basefee: u128) -> u128;
    fn effective_gas_price(&self, basefee: u128) -> (p: u128) ensures p == self.egp(basefee); }
pub trait ContextTr {
    type Cfg: Cfg; type Block: Block; type Tx: Transaction;
    spec fn cfg_s(&self) -> Self::Cfg; spec fn block_s(&self) -> Self::Block; spec fn tx_s(&self) -> Self::Tx;
    fn cfg(&self) -> (r: &Self::Cfg) ensures *r == self.cfg_s();
    fn block(&self) -> (r: &Self::Block) ensures *r == self.block_s();
    fn tx(&self) -> (r: &Self::Tx) ensures *r == self.tx_s();
}
// ---- transcribed oracle: revm-handler post_execution::reward_beneficiary (what it credits, or None if it returns early) ----
pub open spec fn reward_amount(disabled: bool, london: bool, basefee: u64, egp: u128, used: u64, reservoir: u64) -> Option<nat> {
    if disabled { None } else {
        let bf = basefee as u128;
        let p: nat = if london { if egp >= bf { (egp - bf) as nat } else { 0 } } else { egp as nat };
        let u: nat = if used >= reservoir { (used - reservoir) as nat } else { 0 };
        Some(p * u)
    }
}
