// ================= U25 prelude: TRUSTED stand-ins =================
#[verifier::external_body] #[verifier::reject_recursive_types(T)] pub struct OnceLock<T> { p: core::marker::PhantomData<T> }
#[verifier::external_body] #[verifier::reject_recursive_types(K)] #[verifier::reject_recursive_types(V)] pub struct DashMap<K, V> { p: core::marker::PhantomData<(K, V)> }
use std::sync::Arc;
pub struct TxEnv { pub caller: Address, pub value: U256, pub gas_limit: u64, pub gas_price: u128 }
impl TxEnv {
    /// revm: the maximum balance the transaction can spend, or an overflow error
    pub uninterp spec fn max_spend(&self) -> Option<U256>;
    #[verifier::external_body] pub fn max_balance_spending(&self) -> (r: Result<U256, InvalidTransaction>)
        ensures r is Ok <==> self.max_spend() is Some, r matches Ok(v) ==> self.max_spend() == Some(v) { unimplemented!() }
}
/// the cost the planner charges for one transaction: its maximum spending, U256::MAX when that overflows
pub open spec fn cost_of(t: TxEnv) -> nat { match t.max_spend() { Some(v) => v@, None => u256_max() } }
pub open spec fn sat_add(a: nat, b: nat) -> nat { if a + b <= u256_max() { a + b } else { u256_max() } }
/// saturating suffix sum over the account's transactions j..len, accumulated from the LAST one backwards
pub open spec fn suffix_cost(txs: Seq<TxEnv>, ids: Seq<TxId>, j: int) -> nat decreases ids.len() - j {
    if j >= ids.len() { 0 } else { sat_add(suffix_cost(txs, ids, j + 1), cost_of(txs[ids[j] as int])) }
}
/// TRUSTED: std slice::to_vec / Result::unwrap_or
pub assume_specification<T: Clone>[ <[T]>::to_vec ](s: &[T]) -> (v: Vec<T>) ensures v@ == s@;
pub assume_specification<T, E>[ Result::<T, E>::unwrap_or ](r: Result<T, E>, d: T) -> (o: T)
    ensures o == (match r { Ok(v) => v, Err(_) => d });
