// ================= U25 prelude: TRUSTED stand-ins =================
#[verifier::external_body] #[verifier::reject_recursive_types(T)] pub struct OnceLock<T> { p: core::marker::PhantomData<T> }
#[verifier::external_body] #[verifier::reject_recursive_types(K)] #[verifier::reject_recursive_types(V)] pub struct DashMap<K, V> { p: core::marker::PhantomData<(K, V)> }
#[verifier::external_body] #[verifier::reject_recursive_types(K)] #[verifier::reject_recursive_types(V)] pub struct Entry<'a, K, V> { p: core::marker::PhantomData<&'a (K, V)> }
#[verifier::external_body] #[verifier::reject_recursive_types(K)] #[verifier::reject_recursive_types(V)] pub struct RefMut<'a, K, V> { p: core::marker::PhantomData<&'a (K, V)> }
/// rely/guarantee invariant of the cell stored under address `a` (bound to the planner by wf())
pub uninterp spec fn cell_inv<T>(a: Address, v: T) -> bool;
impl<T> OnceLock<T> {
    /// the address under which this cell is stored in the planner's cache
    pub uninterp spec fn slot(&self) -> Address;
    #[verifier::external_body] pub fn new() -> (r: Self) { unimplemented!() }
    /// stores the initialiser's value only if the cell is still empty; returns the stored value, whoever stored it
    #[verifier::external_body] pub fn get_or_init<F: FnOnce() -> T>(&self, f: F) -> (r: &T)
        requires f.requires(()), forall|v: T| f.ensures((), v) ==> cell_inv(self.slot(), v),      //@ID oncelock_init.P1 : C13
        ensures cell_inv(self.slot(), *r) { unimplemented!() }
}
impl<'a, K, V> RefMut<'a, K, V> { pub uninterp spec fn view(&self) -> V; }
impl<'a, K, V> Deref for RefMut<'a, K, V> { type Target = V; #[verifier::external_body] fn deref(&self) -> (r: &V) ensures *r == self@ { unimplemented!() } }
impl<K, V> DashMap<K, V> {
    #[verifier::external_body] pub fn new() -> (r: Self) { unimplemented!() }
    #[verifier::external_body] pub fn entry(&self, k: K) -> (r: Entry<'_, K, V>) ensures r.key() == k { unimplemented!() }
}
impl<'a, K, V> Entry<'a, K, V> { pub uninterp spec fn key(&self) -> K; }
impl<'a, S> Entry<'a, Address, Arc<OnceLock<S>>> {
    /// the cell handed out for key k is "the cell stored under k" (definition of `slot`)
    #[verifier::external_body] pub fn or_insert_with<F: FnOnce() -> Arc<OnceLock<S>>>(self, f: F) -> (r: RefMut<'a, Address, Arc<OnceLock<S>>>)
        requires f.requires(()), ensures (*r@).slot() == self.key() { unimplemented!() }
}
use std::sync::Arc;
pub struct TxEnv { pub caller: Address, pub value: U256, pub gas_limit: u64, pub gas_price: u128 }
impl TxEnv {
    /// revm: the maximum balance the transaction can spend, or an overflow error
    pub uninterp spec fn max_spend(&self) -> Option<U256>;
    #[verifier::external_body] pub fn max_balance_spending(&self) -> (r: Result<U256, InvalidTransaction>)
        ensures r is Ok <==> self.max_spend() is Some, r matches Ok(v) ==> self.max_spend() == Some(v) { unimplemented!() }
}
/// the cost the planner charges for one transaction: its maximum spending, U256::MAX when that overflows
pub open spec fn cost_of(t: TxEnv) -> nat { match t.max_spend() { Some(v) => v@, None => u256_max() } }
pub open spec fn sat_add(a: nat, b: nat) -> nat { if a + b <= u256_max() { a + b } else { u256_max() } }
/// saturating suffix sum over the account's transactions j..len, accumulated from the LAST one backwards
pub open spec fn suffix_cost(txs: Seq<TxEnv>, ids: Seq<TxId>, j: int) -> nat decreases ids.len() - j {
    if j >= ids.len() { 0 } else { sat_add(suffix_cost(txs, ids, j + 1), cost_of(txs[ids[j] as int])) }
}
/// TRUSTED: std slice::to_vec / Result::unwrap_or
pub assume_specification<T: Clone>[ <[T]>::to_vec ](s: &[T]) -> (v: Vec<T>) ensures v@ == s@;
pub assume_specification<T, E>[ Result::<T, E>::unwrap_or ](r: Result<T, E>, d: T) -> (o: T)
    ensures o == (match r { Ok(v) => v, Err(_) => d });

// ---- planner vocabulary ----
/// the saturating-suffix schedule of the account whose transactions are `ids`
spec fn sched_ok(txs: Seq<TxEnv>, ids: Seq<TxId>, v: AccountReserveSchedule) -> bool {
    v.txids@ == ids && v.cost_from@.len() == ids.len() && forall|j: int| 0 <= j < ids.len() ==> (#[trigger] v.cost_from@[j])@ == suffix_cost(txs, ids, j)
}
pub open spec fn ascending(ids: Seq<TxId>) -> bool { forall|i: int, j: int| 0 <= i < j < ids.len() ==> ids[i] < ids[j] }
/// j is where the account's transactions strictly after txid begin
pub open spec fn split_at(ids: Seq<TxId>, txid: TxId, j: int) -> bool {
    0 <= j <= ids.len() && (j < ids.len() ==> ids[j] > txid) && (forall|i: int| 0 <= i < j ==> ids[i] <= txid) && (forall|i: int| j <= i < ids.len() ==> ids[i] > txid)
}
impl ReservePlanner {
    /// abstract sender index: caller -> ascending list of its txids (what sender_index() computes)
    uninterp spec fn idx(&self) -> Map<Address, Seq<TxId>>;
    spec fn wf(&self) -> bool {
        &&& forall|a: Address| #[trigger] self.idx().contains_key(a) ==> ascending(self.idx()[a]) && forall|j: int| 0 <= j < self.idx()[a].len() ==> self.idx()[a][j] < self.txs@.len()
        &&& forall|a: Address, v: AccountReserveSchedule| #[trigger] cell_inv(a, v) <==> (self.idx().contains_key(a) && sched_ok(self.txs@, self.idx()[a], v))
    }
}
impl AccountReserveSchedule { spec fn wf(&self) -> bool { self.txids.len() == self.cost_from.len() && ascending(self.txids@) } }
#[verifier::external_body] proof fn axiom_address_key_model() ensures vstd::std_specs::hash::obeys_key_model::<Address>() {}
