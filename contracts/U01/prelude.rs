// ---- U01 spec functions (ghost) ----
impl RewindableCursor {
    /// the validation cursor has no value invariant: every usize may be stored
    spec fn wf(&self) -> bool { forall|v: usize| #[trigger] self.0.inv(v) }
}
impl PublishedCursor {
    /// single-writer monotone cell: stores allowed (by its one coordinator)
    spec fn wf(&self) -> bool { self.0.store_allowed() }
}
