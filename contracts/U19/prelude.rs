// ================= U19 prelude: TRUSTED stand-ins for revm interpreter types =================
#[derive(PartialEq, Eq, Structural, Clone, Copy)]
pub enum InstructionResult { StateChangeDuringStaticCall, NotActivated, FatalExternalError, Other(u8) }
pub type InstructionExecResult = Result<(), InstructionResult>;
pub trait RuntimeFlag {
    spec fn static_spec(&self) -> bool;
    spec fn spec_spec(&self) -> SpecId;
    fn is_static(&self) -> (b: bool) ensures b == self.static_spec();
    fn spec_id(&self) -> (s: SpecId) ensures s == self.spec_spec();
}
pub trait InputsTr {
    // every accessor of revm's InputsTr (so that an edit naming another one is decided, not a type error)
    spec fn target_spec(&self) -> Address;
    spec fn bytecode_spec(&self) -> Option<Address>;
    spec fn caller_spec(&self) -> Address;
    spec fn value_spec(&self) -> U256;
    fn target_address(&self) -> (a: Address) ensures a == self.target_spec();
    fn bytecode_address(&self) -> (a: Option<&Address>) ensures (match a { Some(x) => Some(*x), None => None }) == self.bytecode_spec();
    fn caller_address(&self) -> (a: Address) ensures a == self.caller_spec();
    fn call_value(&self) -> (v: U256) ensures v == self.value_spec();
}
pub trait InterpreterTypes { type RuntimeFlag: RuntimeFlag; type Input: InputsTr; }
pub struct Interpreter<WIRE: InterpreterTypes> { pub runtime_flag: WIRE::RuntimeFlag, pub input: WIRE::Input }
pub struct AccountLoad { pub is_delegate_account_cold: Option<bool> }
pub trait Host {
    spec fn delegated_spec(&self, a: Address) -> Option<AccountLoad>;
    spec fn host_eq(&self, o: &Self) -> bool;
    /// ghost count of host calls made so far
    spec fn calls(&self) -> nat;
    fn load_account_delegated(&mut self, a: Address) -> (r: Option<AccountLoad>)
        ensures r == old(self).delegated_spec(a), final(self).host_eq(old(self)), final(self).calls() == old(self).calls() + 1;
}
pub struct InstructionContext<'a, H: ?Sized, WIRE: InterpreterTypes> {
    pub interpreter: &'a mut Interpreter<WIRE>,
    pub host: &'a mut H,
}
pub mod contract {
    use super::*;
    pub uninterp spec fn create_res<WIRE: InterpreterTypes, H: Host + ?Sized>(c2: bool, i: Interpreter<WIRE>, h: &H) -> InstructionExecResult;
    #[verifier::external_body]
    pub fn create<const IS_CREATE2: bool, WIRE: InterpreterTypes, H: Host + ?Sized>(context: InstructionContext<'_, H, WIRE>) -> (r: InstructionExecResult)
        ensures r == create_res::<WIRE, H>(IS_CREATE2, *old(context.interpreter), old(context.host))
        { unimplemented!() }
}
