// ---------- TRUSTED stand-ins specific to U05 ----------
/// committed-state view: what basic_ref answers for the committed prefix + ghost commit log
#[verifier::external_body]
#[verifier::reject_recursive_types(DB)]
pub struct ParallelStateCommit<'a, DB> { p: core::marker::PhantomData<&'a DB> }
impl<'a, DB: DatabaseRef> ParallelStateCommit<'a, DB> {
    pub uninterp spec fn log(&self) -> Seq<Map<Address, Account>>;
    pub uninterp spec fn basic(&self, a: Address) -> Result<Option<AccountInfo>, DB::Error>;
    #[verifier::external_body]
    pub fn basic_ref(&self, a: Address) -> (r: Result<Option<AccountInfo>, DB::Error>) ensures r == self.basic(a) { unimplemented!() }
    #[verifier::external_body]
    pub fn commit(&mut self, s: EvmState) ensures final(self).log() == old(self).log().push(s@) { unimplemented!() }
}

// ---------- U05 spec functions ----------
pub open spec fn committed_nonce<E>(r: Result<Option<AccountInfo>, E>) -> u64 {
    match r { Ok(Some(i)) => i.nonce, _ => 0 }
}
