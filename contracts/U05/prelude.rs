use std::cmp::Ordering;
pub type TxId = usize;
pub assume_specification<T, U, F: FnOnce(T) -> U>[ Option::<T>::map_or ](o: Option<T>, d: U, f: F) -> (r: U)
    requires o matches Some(x) ==> f.requires((x,)),
    ensures o is None ==> r == d, o matches Some(x) ==> f.ensures((x,), r);

// ---------- TRUSTED stand-ins for revm / grevm dependencies ----------
#[derive(PartialEq, Eq, Structural, Clone, Copy)] pub struct Address(pub u64);
#[derive(PartialEq, Eq, Structural, Clone, Copy)] pub struct U256(pub u64);
#[derive(PartialEq, Eq, Structural, Clone, Copy)] pub struct AccountInfo { pub balance: U256, pub nonce: u64, pub code_hash: u64 }
pub struct Account { pub info: AccountInfo, pub touched: bool }
impl Account {
    pub fn mark_touch(&mut self) ensures final(self).info == old(self).info, final(self).touched { self.touched = true; }
}
impl From<AccountInfo> for Account {
    fn from(info: AccountInfo) -> (a: Account) { Account { info, touched: false } }
}
impl vstd::std_specs::convert::FromSpecImpl<AccountInfo> for Account {
    open spec fn obeys_from_spec() -> bool { true }
    open spec fn from_spec(info: AccountInfo) -> Account { Account { info, touched: false } }
}
#[verifier::external_body]
pub struct EvmState { m: std::collections::HashMap<u64, u64> }
impl EvmState {
    pub uninterp spec fn view(&self) -> Map<Address, Account>;
    #[verifier::external_body]
    pub fn contains_key(&self, a: &Address) -> (b: bool) ensures b == self@.dom().contains(*a) { unimplemented!() }
    #[verifier::external_body]
    pub fn get(&self, a: &Address) -> (o: Option<&Account>) ensures o is Some == self@.dom().contains(*a), o matches Some(x) ==> *x == self@[*a] { unimplemented!() }
    #[verifier::external_body]
    pub fn insert(&mut self, a: Address, acc: Account) -> (o: Option<Account>)
        ensures final(self)@ == old(self)@.insert(a, acc) { unimplemented!() }
}
pub struct ExecutionResult { pub gas: u64 }
pub struct ResultAndState { pub result: ExecutionResult, pub state: EvmState }
pub struct TxEnv { pub caller: Address, pub nonce: u64 }
pub enum EVMError<E> { Transaction(u64), Database(E), Custom(u8) }
pub struct GrevmError<E> { pub txid: usize, pub error: EVMError<E> }
pub enum TxExecutionOutcome { Executed(ExecutionResult), Skipped(u64) }

#[derive(Clone, Copy)]
pub struct DeferredBeneficiaryReward(pub U256);
impl DeferredBeneficiaryReward {
    pub uninterp spec fn spec_apply(self, a: Option<AccountInfo>) -> AccountInfo;
    #[verifier::external_body]
    pub fn apply_to(self, account: Option<AccountInfo>) -> (r: AccountInfo) ensures r == self.spec_apply(account) { unimplemented!() }
}
pub trait DatabaseRef { type Error; }

/// committed-state view: what basic_ref answers for the committed prefix + ghost commit log
#[verifier::external_body]
#[verifier::reject_recursive_types(DB)]
pub struct ParallelStateCommit<'a, DB> { p: core::marker::PhantomData<&'a DB> }
impl<'a, DB: DatabaseRef> ParallelStateCommit<'a, DB> {
    pub uninterp spec fn log(&self) -> Seq<Map<Address, Account>>;
    pub uninterp spec fn basic(&self, a: Address) -> Result<Option<AccountInfo>, DB::Error>;
    #[verifier::external_body]
    pub fn basic_ref(&self, a: Address) -> (r: Result<Option<AccountInfo>, DB::Error>) ensures r == self.basic(a) { unimplemented!() }
    #[verifier::external_body]
    pub fn commit(&mut self, s: EvmState) ensures final(self).log() == old(self).log().push(s@) { unimplemented!() }
}

// ---------- U05 spec functions ----------
pub open spec fn committed_nonce<E>(r: Result<Option<AccountInfo>, E>) -> u64 {
    match r { Ok(Some(i)) => i.nonce, _ => 0 }
}
