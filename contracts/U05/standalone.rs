use std::cmp::Ordering;
