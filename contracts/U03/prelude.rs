// ---- U03 spec functions (ghost) ----
impl ExecutionFrontier {
    spec fn prefix_set(&self, n: int) -> bool {
        forall|i: int| 0 <= i < n ==> (#[trigger] self.executed@[i]).ever_true()
    }
    /// R/G invariant of the frontier cell: a published frontier only covers flags that have been set
    spec fn wf(&self) -> bool {
        &&& forall|v: usize| #[trigger] self.frontier.inv(v) <==> (v <= self.executed.len() && self.prefix_set(v as int))
        &&& forall|i: int| 0 <= i < self.executed.len() ==> !(#[trigger] self.executed@[i]).may_reset()
    }
}
impl SchedulerContext {
    spec fn wf(&self) -> bool {
        &&& self.validation.wf()
        &&& self.finality.wf()
        &&& self.committed.wf()
        &&& forall|v: usize| #[trigger] self.finality.0.inv(v) <==> v <= self.num_txs
        &&& forall|v: usize| #[trigger] self.committed.0.inv(v) <==> v <= self.num_txs
        &&& self.execution_frontier.wf()
        &&& self.execution_frontier.executed.len() == self.num_txs
        &&& self.lower_timestamps.len() == self.num_txs
        &&& self.unconfirmed_timestamps.len() == self.num_txs
        &&& forall|v: usize| #[trigger] self.logical_clock.inv(v)
        &&& forall|v: usize| #[trigger] self.validation_resets.inv(v)
        &&& forall|i: int, v: usize| 0 <= i < self.num_txs ==> #[trigger] self.lower_timestamps@[i].inv(v)
        &&& forall|i: int, v: usize| 0 <= i < self.num_txs ==> #[trigger] self.unconfirmed_timestamps@[i].inv(v)
    }
    /// "index has completed an execution" (monotone)
    spec fn has_executed(&self, i: int) -> bool { self.execution_frontier.executed@[i].ever_true() }
}
