// ---- TRUSTED stand-ins: multi-version memory = DashMap<LocationAndType, BTreeMap<TxId, MemoryEntry>> ----
// Read through one abstract view per call (DESIGN §3.1). `range(..k).next_back()` = greatest key < k.
#[verifier::external_body] #[verifier::reject_recursive_types(V)]
pub struct BTreeMap<V> { p: core::marker::PhantomData<V> }
#[verifier::external_body] #[verifier::reject_recursive_types(V)]
pub struct BRange<'a, V> { p: core::marker::PhantomData<&'a V> }
/// the range bounds the real code (or a plausible edit of it) may pass to BTreeMap::range
pub trait TxRangeBound { spec fn excl(&self) -> int; }
impl TxRangeBound for core::ops::RangeTo<TxId> { open spec fn excl(&self) -> int { self.end as int } }
impl TxRangeBound for core::ops::RangeToInclusive<TxId> { open spec fn excl(&self) -> int { self.end as int + 1 } }
pub open spec fn latest_before<V>(m: Map<TxId, V>, b: int) -> Option<TxId> {
    if exists|k: TxId| m.contains_key(k) && k < b {
        Some(choose|k: TxId| m.contains_key(k) && k < b && forall|j: TxId| m.contains_key(j) && j < b ==> j <= k)
    } else { None }
}
impl<V> BTreeMap<V> {
    pub uninterp spec fn view(&self) -> Map<TxId, V>;
    /// issued fact: the entry of `k` has been removed through this handle
    pub uninterp spec fn removed(&self, k: TxId) -> bool;
    #[verifier::external_body]
    pub fn range<R: TxRangeBound>(&self, r: R) -> (it: BRange<'_, V>) ensures it.map() == self@, it.bound() == r.excl() { unimplemented!() }
    #[verifier::external_body]
    pub fn get_mut(&mut self, k: &TxId) -> (r: Option<&mut V>)
        ensures r is Some == old(self)@.contains_key(*k),
                r matches Some(x) ==> *x == old(self)@[*k] && final(self)@ == old(self)@.insert(*k, *final(x)),
                r is None ==> final(self)@ == old(self)@ { unimplemented!() }
    #[verifier::external_body]
    pub fn insert(&mut self, k: TxId, v: V) -> (r: Option<V>)
        ensures final(self)@ == old(self)@.insert(k, v) { unimplemented!() }
    #[verifier::external_body]
    pub fn remove(&mut self, k: &TxId) -> (r: Option<V>)
        ensures final(self)@ == old(self)@.remove(*k), final(self).removed(*k) { unimplemented!() }
}
impl<'a, V> BRange<'a, V> {
    pub uninterp spec fn map(&self) -> Map<TxId, V>;
    pub uninterp spec fn bound(&self) -> int;
    #[verifier::external_body]
    pub fn next_back(&mut self) -> (r: Option<(&'a TxId, &'a V)>)
        ensures match latest_before(old(self).map(), old(self).bound()) {
            Some(k) => r matches Some((kk, vv)) && *kk == k && *vv == old(self).map()[k] && k < old(self).bound() && old(self).map().contains_key(k),
            None => r is None }
    { unimplemented!() }
    // ---- the rest of the iterator surface a plausible edit may use on the version range (ascending key order) ----
    #[verifier::external_body]
    pub fn next(&mut self) -> (r: Option<(&'a TxId, &'a V)>)
        ensures match earliest_in(old(self).map(), old(self).bound()) {
            Some(k) => r matches Some((kk, vv)) && *kk == k && *vv == old(self).map()[k] && k < old(self).bound() && old(self).map().contains_key(k),
            None => r is None }
    { unimplemented!() }
    #[verifier::external_body]
    pub fn last(self) -> (r: Option<(&'a TxId, &'a V)>)
        ensures match latest_before(self.map(), self.bound()) {
            Some(k) => r matches Some((kk, vv)) && *kk == k && *vv == self.map()[k] && k < self.bound() && self.map().contains_key(k),
            None => r is None }
    { unimplemented!() }
    /// the FIRST (smallest key) version below the bound that satisfies the predicate
    #[verifier::external_body]
    pub fn find<P: FnMut(&(&'a TxId, &'a V)) -> bool>(&mut self, p: P) -> (r: Option<(&'a TxId, &'a V)>)
        requires forall|x: &(&'a TxId, &'a V)| p.requires((x,)),
        ensures match r {
            Some((kk, vv)) => old(self).map().contains_key(*kk) && *kk < old(self).bound() && *vv == old(self).map()[*kk] && p.ensures((&(kk, vv),), true)
                && forall|j: TxId| old(self).map().contains_key(j) && j < *kk ==> p.ensures((&(&j, &old(self).map()[j]),), false),
            None => forall|j: TxId| old(self).map().contains_key(j) && j < old(self).bound() ==> p.ensures((&(&j, &old(self).map()[j]),), false) }
    { unimplemented!() }
    #[verifier::external_body]
    pub fn rev(self) -> (r: BRangeRev<'a, V>) ensures r.map() == self.map(), r.bound() == self.bound() { unimplemented!() }
}
/// `range(..k).rev()`: descending key order
#[verifier::external_body] #[verifier::reject_recursive_types(V)]
pub struct BRangeRev<'a, V> { p: core::marker::PhantomData<&'a V> }
impl<'a, V> BRangeRev<'a, V> {
    pub uninterp spec fn map(&self) -> Map<TxId, V>;
    pub uninterp spec fn bound(&self) -> int;
    #[verifier::external_body]
    pub fn next(&mut self) -> (r: Option<(&'a TxId, &'a V)>)
        ensures match latest_before(old(self).map(), old(self).bound()) {
            Some(k) => r matches Some((kk, vv)) && *kk == k && *vv == old(self).map()[k] && k < old(self).bound() && old(self).map().contains_key(k),
            None => r is None }
    { unimplemented!() }
    /// the LAST (greatest key) version below the bound that satisfies the predicate
    #[verifier::external_body]
    pub fn find<P: FnMut(&(&'a TxId, &'a V)) -> bool>(&mut self, p: P) -> (r: Option<(&'a TxId, &'a V)>)
        requires forall|x: &(&'a TxId, &'a V)| p.requires((x,)),
        ensures match r {
            Some((kk, vv)) => old(self).map().contains_key(*kk) && *kk < old(self).bound() && *vv == old(self).map()[*kk] && p.ensures((&(kk, vv),), true)
                && forall|j: TxId| old(self).map().contains_key(j) && *kk < j < old(self).bound() ==> p.ensures((&(&j, &old(self).map()[j]),), false),
            None => forall|j: TxId| old(self).map().contains_key(j) && j < old(self).bound() ==> p.ensures((&(&j, &old(self).map()[j]),), false) }
    { unimplemented!() }
}
pub open spec fn earliest_in<V>(m: Map<TxId, V>, b: int) -> Option<TxId> {
    if exists|k: TxId| m.contains_key(k) && k < b {
        Some(choose|k: TxId| m.contains_key(k) && k < b && forall|j: TxId| m.contains_key(j) && j < b ==> k <= j)
    } else { None }
}
#[verifier::external_body] pub struct MVMemory { p: u8 }
#[verifier::external_body] #[verifier::reject_recursive_types(V)] pub struct Ref<'a, V> { p: core::marker::PhantomData<&'a V> }
impl<'a, V> Ref<'a, V> { pub uninterp spec fn view(&self) -> V; }
impl<'a, V> Deref for Ref<'a, V> { type Target = V;
    #[verifier::external_body] fn deref(&self) -> (r: &V) ensures *r == self@ { unimplemented!() } }
#[verifier::external_body] #[verifier::reject_recursive_types(V)] pub struct RefMut<'a, V> { p: core::marker::PhantomData<&'a V> }
impl<'a, V> RefMut<'a, V> { pub uninterp spec fn view(&self) -> V; pub uninterp spec fn key(&self) -> LocationAndType; }
impl<'a, V> Deref for RefMut<'a, V> { type Target = V; #[verifier::external_body] fn deref(&self) -> (r: &V) ensures *r == self@ { unimplemented!() } }
impl<'a, V> DerefMut for RefMut<'a, V> { #[verifier::external_body] fn deref_mut(&mut self) -> (r: &mut V) ensures *r == old(self)@, *final(r) == final(self)@, final(self).key() == old(self).key() { unimplemented!() } }
#[verifier::external_body] pub struct MvEntry<'a> { p: core::marker::PhantomData<&'a u8> }
impl<'a> MvEntry<'a> {
    pub uninterp spec fn key(&self) -> LocationAndType;
    /// DashMap `entry(k).or_default()`: a write guard on the (possibly fresh, empty) per-location map
    #[verifier::external_body] pub fn or_default(self) -> (r: RefMut<'a, BTreeMap<MemoryEntry>>) ensures r.key() == self.key() { unimplemented!() }
}
impl MVMemory {
    #[verifier::external_body] pub fn entry(&self, k: LocationAndType) -> (e: MvEntry<'_>) ensures e.key() == k { unimplemented!() }
    pub uninterp spec fn view(&self) -> Map<LocationAndType, BTreeMap<MemoryEntry>>;
    #[verifier::external_body]
    pub fn get(&self, k: &LocationAndType) -> (r: Option<Ref<'_, BTreeMap<MemoryEntry>>>)
        ensures match r { Some(x) => self@.contains_key(*k) && x@ == self@[*k], None => !self@.contains_key(*k) } { unimplemented!() }
    #[verifier::external_body]
    pub fn get_mut(&self, k: &LocationAndType) -> (r: Option<RefMut<'_, BTreeMap<MemoryEntry>>>)
        ensures match r { Some(x) => self@.contains_key(*k) && x@ == self@[*k] && x.key() == *k, None => !self@.contains_key(*k) } { unimplemented!() }
}
