// ---- TRUSTED stand-ins: revm state / result types (fields and flag predicates the extracted code uses) ----
pub struct Account { pub info: AccountInfo, pub touched: bool }
impl Account {
    pub fn mark_touch(&mut self) ensures final(self).info == old(self).info, final(self).touched { self.touched = true; }
}
impl From<AccountInfo> for Account {
    fn from(info: AccountInfo) -> (a: Account) { Account { info, touched: false } }
}
impl vstd::std_specs::convert::FromSpecImpl<AccountInfo> for Account {
    open spec fn obeys_from_spec() -> bool { true }
    open spec fn from_spec(info: AccountInfo) -> Account { Account { info, touched: false } }
}
#[verifier::external_body]
pub struct EvmState { m: std::collections::HashMap<u64, u64> }
impl EvmState {
    pub uninterp spec fn view(&self) -> Map<Address, Account>;
    #[verifier::external_body]
    pub fn contains_key(&self, a: &Address) -> (b: bool) ensures b == self@.dom().contains(*a) { unimplemented!() }
    #[verifier::external_body]
    pub fn get(&self, a: &Address) -> (o: Option<&Account>) ensures o is Some == self@.dom().contains(*a), o matches Some(x) ==> *x == self@[*a] { unimplemented!() }
    #[verifier::external_body]
    pub fn insert(&mut self, a: Address, acc: Account) -> (o: Option<Account>)
        ensures final(self)@ == old(self)@.insert(a, acc) { unimplemented!() }
}
pub struct ExecutionResult { pub gas: u64 }
pub struct ResultAndState { pub result: ExecutionResult, pub state: EvmState }
pub struct TxEnv { pub caller: Address, pub nonce: u64, pub id: u64 }
impl TxEnv { pub fn clone(&self) -> (r: Self) ensures r == *self { TxEnv { caller: self.caller, nonce: self.nonce, id: self.id } } }
pub enum TxExecutionOutcome { Executed(ExecutionResult), Skipped(InvalidTransaction) }
