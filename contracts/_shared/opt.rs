// ---- TRUSTED: std helpers that vstd does not specify (exact generic signatures) ----
pub assume_specification<T, U, F: FnOnce(T) -> U>[ Option::<T>::map_or ](o: Option<T>, d: U, f: F) -> (r: U)
    requires o matches Some(x) ==> f.requires((x,)),
    ensures o is None ==> r == d, o matches Some(x) ==> f.ensures((x,), r);
pub assume_specification<T, F: FnOnce(&T) -> bool>[ Option::<T>::filter ](o: Option<T>, f: F) -> (r: Option<T>)
    requires o matches Some(x) ==> f.requires((&x,)),
    ensures o is None ==> r is None, o matches Some(x) ==> ((f.ensures((&x,), true) && r == o) || (f.ensures((&x,), false) && r is None));
pub assume_specification<T, F: FnOnce(T) -> bool>[ Option::<T>::is_none_or ](o: Option<T>, f: F) -> (r: bool)
    requires o matches Some(x) ==> f.requires((x,)),
    ensures o is None ==> r, o matches Some(x) ==> f.ensures((x,), r);
pub assume_specification<T>[ bool::then_some ](b: bool, t: T) -> (r: Option<T>)
    ensures r == (if b { Some(t) } else { None::<T> });
pub assume_specification<T: std::default::Default>[ std::mem::take ](t: &mut T) -> (r: T) ensures r == *old(t);
pub assume_specification<T: Copy>[ Option::<&T>::copied ](o: Option<&T>) -> (r: Option<T>)
    ensures r == (match o { Some(x) => Some(*x), None => None::<T> });
pub assume_specification<T, F: FnOnce(T) -> bool>[ Option::<T>::is_some_and ](o: Option<T>, f: F) -> (r: bool)
    requires o matches Some(x) ==> f.requires((x,)),
    ensures o is None ==> !r, o matches Some(x) ==> f.ensures((x,), r);
pub assume_specification<T, E, U, F: FnOnce(T) -> Result<U, E>>[ Result::<T, E>::and_then ](o: Result<T, E>, f: F) -> (r: Result<U, E>)
    requires o matches Ok(x) ==> f.requires((x,)),
    ensures o matches Err(e) ==> r == Err::<U, E>(e), o matches Ok(x) ==> f.ensures((x,), r);
pub assume_specification<T, F: FnOnce() -> T>[ Option::<T>::get_or_insert_with ](o: &mut Option<T>, f: F) -> (r: &mut T)
    requires *old(o) is None ==> f.requires(()),
    ensures match *old(o) { Some(x) => *r == x, None => f.ensures((), *r) }, *final(o) == Some(*final(r));
pub assume_specification<T>[ Option::<T>::or ](o: Option<T>, b: Option<T>) -> (r: Option<T>)
    ensures r == (match o { Some(x) => Some(x), None => b });
pub assume_specification<T>[ Option::<T>::replace ](o: &mut Option<T>, v: T) -> (r: Option<T>)
    ensures r == *old(o), *final(o) == Some(v);
