// ---- TRUSTED: what iterating a std map by value yields (shared by R22 / R25) ----
/// `v` lists every pair of `m` exactly once (in some order)
pub open spec fn enumerates<K, V>(v: Seq<(K, V)>, m: Map<K, V>) -> bool {
    &&& forall|i: int| 0 <= i < v.len() ==> #[trigger] m.contains_key(v[i].0) && m[v[i].0] == v[i].1
    &&& forall|k: K| #[trigger] m.contains_key(k) ==> exists|i: int| 0 <= i < v.len() && (#[trigger] v[i]).0 == k
    &&& forall|i: int, j: int| 0 <= i < j < v.len() ==> (#[trigger] v[i]).0 != (#[trigger] v[j]).0
}
/// std HashMap::into_iter yields every pair exactly once, in an unspecified order
#[verifier::external_body] pub fn into_pairs<K, V>(m: HashMap<K, V>) -> (v: Vec<(K, V)>)
    ensures enumerates(v@, m@),
{ unimplemented!() }
