// GENERATED FILE — assembled by /verif/vlib/build.py from /repo's working tree; do not edit.
#![feature(allocator_api)]
#![allow(unused_imports, dead_code, unused_variables, unused_mut, unused_assignments, unreachable_code, private_interfaces, non_snake_case)]
use vstd::prelude::*;
use std::ops::{Deref, DerefMut};
use std::collections::{HashMap, HashSet};
use vstd::std_specs::iter::IteratorSpec;
verus! {
