//@EXTRACTED@
} // verus!
fn main() {}
