// ---- verified lemmas (no trust): std HashSet iteration yields members only ----
// vstd states length, no-duplicates and coverage of `iter().remaining()`; membership follows by counting.
pub proof fn lemma_iter_members<T>(all: Seq<&T>, s: Set<T>)
    requires all.len() == s.len(), all.no_duplicates(),
             forall|k: T| s.contains(k) ==> exists|i: int| 0 <= i < all.len() && *(#[trigger] all[i]) == k,
    ensures forall|i: int| 0 <= i < all.len() ==> s.contains(*(#[trigger] all[i])),
{
    let m = all.map_values(|x: &T| *x);
    assert(m.no_duplicates()) by {
        assert forall|i: int, j: int| 0 <= i < m.len() && 0 <= j < m.len() && i != j implies m[i] != m[j] by {
            assert(all[i] != all[j]);
        }
    }
    m.unique_seq_to_set();
    let r = m.to_set();
    assert(s.subset_of(r)) by {
        assert forall|k: T| s.contains(k) implies r.contains(k) by {
            let i = choose|i: int| 0 <= i < all.len() && *(#[trigger] all[i]) == k;
            assert(m[i] == k);
        }
    }
    vstd::set_lib::lemma_len_subset(s, r);
    vstd::set_lib::lemma_subset_equality(s, r);
    assert(s =~= r);
    assert forall|i: int| 0 <= i < all.len() implies s.contains(*(#[trigger] all[i])) by {
        assert(m[i] == *all[i]);
        assert(r.contains(m[i]));
    }
}
