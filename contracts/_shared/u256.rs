// ---- TRUSTED stand-in: U256 arithmetic as mathematics on the view (nat < 2^256) ----
pub open spec fn u256_max() -> nat { (0x1_0000_0000_0000_0000_0000_0000_0000_0000 * 0x1_0000_0000_0000_0000_0000_0000_0000_0000 - 1) as nat }
/// verified: the view is injective, so `==` on the stand-in is equality of the 256-bit values
pub proof fn lemma_u256_view_inj(a: U256, b: U256) ensures (a@ == b@) <==> (a == b) {
    if a@ == b@ { assert(a.0 == b.0 && a.1 == b.1) by(nonlinear_arith) requires
        (a.0 as nat) * 0x1_0000_0000_0000_0000_0000_0000_0000_0000 + (a.1 as nat) == (b.0 as nat) * 0x1_0000_0000_0000_0000_0000_0000_0000_0000 + (b.1 as nat),
        a.1 < 0x1_0000_0000_0000_0000_0000_0000_0000_0000, b.1 < 0x1_0000_0000_0000_0000_0000_0000_0000_0000; }
}
pub proof fn lemma_u256_bound(a: U256) ensures a@ <= u256_max() {
    assert(a@ <= u256_max()) by(nonlinear_arith) requires a@ == (a.0 as nat) * 0x1_0000_0000_0000_0000_0000_0000_0000_0000 + (a.1 as nat),
        a.0 <= 0xffff_ffff_ffff_ffff_ffff_ffff_ffff_ffff, a.1 <= 0xffff_ffff_ffff_ffff_ffff_ffff_ffff_ffff,
        u256_max() == 0x1_0000_0000_0000_0000_0000_0000_0000_0000 * 0x1_0000_0000_0000_0000_0000_0000_0000_0000 - 1;
}
impl U256 {
    pub fn is_zero(&self) -> (b: bool) ensures b == (self@ == 0) { self.0 == 0 && self.1 == 0 }
    #[verifier::external_body] pub fn checked_add(self, o: U256) -> (r: Option<U256>)
        ensures r is Some <==> self@ + o@ <= u256_max(), r matches Some(x) ==> x@ == self@ + o@ { unimplemented!() }
    #[verifier::external_body] pub fn saturating_add(self, o: U256) -> (r: U256)
        ensures r@ == (if self@ + o@ <= u256_max() { self@ + o@ } else { u256_max() }) { unimplemented!() }
    #[verifier::external_body] pub fn saturating_sub(self, o: U256) -> (r: U256)
        ensures r@ == (if self@ >= o@ { (self@ - o@) as nat } else { 0 }) { unimplemented!() }
    pub fn min(self, o: U256) -> (r: U256) ensures r == (if self@ <= o@ { self } else { o }) {
        if self.0 < o.0 || (self.0 == o.0 && self.1 <= o.1) { proof { lemma_u256_le(self, o); } self } else { proof { lemma_u256_le(self, o); } o }
    }
}
pub proof fn lemma_u256_le(a: U256, b: U256) ensures (a@ <= b@) <==> (a.0 < b.0 || (a.0 == b.0 && a.1 <= b.1)) {
    assert((a@ <= b@) <==> (a.0 < b.0 || (a.0 == b.0 && a.1 <= b.1))) by(nonlinear_arith) requires
        a@ == (a.0 as nat) * 0x1_0000_0000_0000_0000_0000_0000_0000_0000 + (a.1 as nat),
        b@ == (b.0 as nat) * 0x1_0000_0000_0000_0000_0000_0000_0000_0000 + (b.1 as nat),
        a.1 < 0x1_0000_0000_0000_0000_0000_0000_0000_0000, b.1 < 0x1_0000_0000_0000_0000_0000_0000_0000_0000;
}
impl From<u128> for U256 { fn from(x: u128) -> (r: U256) { U256(0, x) } }
impl vstd::std_specs::convert::FromSpecImpl<u128> for U256 { open spec fn obeys_from_spec() -> bool { true } open spec fn from_spec(x: u128) -> U256 { U256(0, x) } }
impl PartialOrd for U256 { fn partial_cmp(&self, o: &U256) -> (r: Option<std::cmp::Ordering>) {
    proof { lemma_u256_le(*self, *o); lemma_u256_le(*o, *self); lemma_u256_view_inj(*self, *o); }
    if self.0 < o.0 { Some(std::cmp::Ordering::Less) } else if self.0 > o.0 { Some(std::cmp::Ordering::Greater) }
    else if self.1 < o.1 { Some(std::cmp::Ordering::Less) } else if self.1 > o.1 { Some(std::cmp::Ordering::Greater) } else { Some(std::cmp::Ordering::Equal) } } }
impl vstd::std_specs::cmp::PartialOrdSpecImpl for U256 {
    open spec fn obeys_partial_cmp_spec() -> bool { true }
    open spec fn partial_cmp_spec(&self, o: &U256) -> Option<std::cmp::Ordering> {
        if self@ < o@ { Some(std::cmp::Ordering::Less) } else if self@ == o@ { Some(std::cmp::Ordering::Equal) } else { Some(std::cmp::Ordering::Greater) } }
}
