/// R18: stands for an initialiser expression the extractor replaced (listed per item as `abstract_lets`): no
/// specification, i.e. an arbitrary value of the inferred type
#[verifier::external_body] pub fn abstracted_value<T>() -> T { unimplemented!() }
