// ---- TRUSTED stand-in: parking_lot::Mutex (lock-scoped reasoning, DESIGN §3.3) ----
// What the next acquirer sees is havoc, optionally constrained by a lock invariant `inv`.
#[verifier::external_body] #[verifier::reject_recursive_types(T)] pub struct Mutex<T> { x: core::marker::PhantomData<T> }
#[verifier::external_body] #[verifier::reject_recursive_types(T)] pub struct MutexGuard<'a, T> { x: core::marker::PhantomData<&'a T> }
impl<'a, T> MutexGuard<'a, T> { pub uninterp spec fn view(&self) -> T; pub uninterp spec fn of(&self) -> &'a Mutex<T>; }
impl<T> Mutex<T> {
    pub uninterp spec fn inv(&self, v: T) -> bool;
    /// issued fact: `v` is a value this thread saw under the lock during the current call
    pub uninterp spec fn observed(&self, v: T) -> bool;
    #[verifier::external_body] pub fn lock(&self) -> (g: MutexGuard<'_, T>) ensures g.of() == self, self.inv(g@), self.observed(g@) { unimplemented!() }
}
impl<'a, T> Deref for MutexGuard<'a, T> { type Target = T; #[verifier::external_body] fn deref(&self) -> (r: &T) ensures *r == self@ { unimplemented!() } }
impl<'a, T> DerefMut for MutexGuard<'a, T> { #[verifier::external_body] fn deref_mut(&mut self) -> (r: &mut T) ensures *r == old(self)@, *final(r) == final(self)@, final(self).of() == old(self).of() { unimplemented!() } }
