// ---- TRUSTED stand-ins: revm primitive value types ----
// Address/B256/Bytecode are opaque identities (only ==, Clone, Hash). U256 is a 256-bit value with a
// mathematical view; its arithmetic is available through _shared/u256.rs.
pub type TxId = usize;
#[derive(PartialEq, Eq, Structural, Clone, Copy, Hash)] pub struct Address(pub u64);
#[derive(PartialEq, Eq, Structural, Clone, Copy, Hash)] pub struct B256(pub u64);
#[derive(PartialEq, Eq, Structural, Clone, Copy, Hash)] pub struct U256(pub u128, pub u128);
#[derive(PartialEq, Eq, Structural, Clone, Copy)] pub struct Bytecode(pub u64);
#[derive(PartialEq, Eq, Structural, Clone, Copy)] pub struct AccountInfo { pub balance: U256, pub nonce: u64, pub code_hash: B256, pub code: Option<Bytecode> }
pub const KECCAK_EMPTY: B256 = B256(0xc5d2);
impl AccountInfo {
    pub open spec fn dflt() -> AccountInfo { AccountInfo { balance: U256(0, 0), nonce: 0, code_hash: KECCAK_EMPTY, code: Some(Bytecode(0)) } }
    pub fn is_empty_code_hash(&self) -> (b: bool) ensures b == (self.code_hash == KECCAK_EMPTY) { self.code_hash == KECCAK_EMPTY }
    pub fn clone(&self) -> (r: Self) ensures r == *self { *self }
    /// revm: the same account without its inline bytecode
    pub fn copy_without_code(&self) -> (r: Self) ensures r == (AccountInfo { balance: self.balance, nonce: self.nonce, code_hash: self.code_hash, code: None }) { AccountInfo { balance: self.balance, nonce: self.nonce, code_hash: self.code_hash, code: None } }
    /// revm: no balance, no nonce, no code (uninterpreted here)
    pub uninterp spec fn empty_spec(&self) -> bool;
    #[verifier::external_body] pub fn is_empty(&self) -> (b: bool) ensures b == self.empty_spec() { unimplemented!() }
}
impl Default for AccountInfo { fn default() -> (r: Self) ensures r == AccountInfo::dflt() { AccountInfo { balance: U256(0, 0), nonce: 0, code_hash: KECCAK_EMPTY, code: Some(Bytecode(0)) } } }
impl U256 {
    pub const ZERO: U256 = U256(0, 0);
    pub const MAX: U256 = U256(u128::MAX, u128::MAX);
    pub open spec fn view(self) -> nat { (self.0 as nat) * 0x1_0000_0000_0000_0000_0000_0000_0000_0000 + (self.1 as nat) }
}
#[derive(PartialEq, Eq, Structural, Clone, Copy)]
pub enum InvalidTransaction { NonceOverflowInTransaction, NonceTooLow { tx: u64, state: u64 }, NonceTooHigh { tx: u64, state: u64 }, LackOfFundForMaxFee, Other(u64) }
pub enum EVMError<E> { Transaction(InvalidTransaction), Header(u8), Database(E), Custom(String) }
impl<E> From<InvalidTransaction> for EVMError<E> { fn from(e: InvalidTransaction) -> (r: Self) { EVMError::Transaction(e) } }
impl<E> vstd::std_specs::convert::FromSpecImpl<InvalidTransaction> for EVMError<E> {
    open spec fn obeys_from_spec() -> bool { true }
    open spec fn from_spec(e: InvalidTransaction) -> Self { EVMError::Transaction(e) }
}
pub struct GrevmError<E> { pub txid: TxId, pub error: EVMError<E> }
// derive(Clone) of revm's EVMError / grevm's GrevmError: structural (assumed)
impl<E: Clone> Clone for EVMError<E> { #[verifier::external_body] fn clone(&self) -> (r: Self) ensures r == *self { unimplemented!() } }
impl<E: Clone> Clone for GrevmError<E> { #[verifier::external_body] fn clone(&self) -> (r: Self) ensures r == *self { unimplemented!() } }
/// revm::DatabaseRef: every answer is a function of the (immutable) database value
pub trait DBErrorMarker {}
impl<E: DBErrorMarker> From<E> for EVMError<E> { fn from(e: E) -> (r: Self) { EVMError::Database(e) } }
impl<E: DBErrorMarker> vstd::std_specs::convert::FromSpecImpl<E> for EVMError<E> {
    open spec fn obeys_from_spec() -> bool { true }
    open spec fn from_spec(e: E) -> Self { EVMError::Database(e) }
}
pub trait DatabaseRef {
    type Error: DBErrorMarker;
    spec fn basic_spec(&self, a: Address) -> Result<Option<AccountInfo>, Self::Error>;
    fn basic_ref(&self, a: Address) -> (r: Result<Option<AccountInfo>, Self::Error>) ensures r == self.basic_spec(a);
    spec fn code_spec(&self, h: B256) -> Result<Bytecode, Self::Error>;
    fn code_by_hash_ref(&self, h: B256) -> (r: Result<Bytecode, Self::Error>) ensures r == self.code_spec(h);
    spec fn storage_spec(&self, a: Address, i: U256) -> Result<U256, Self::Error>;
    fn storage_ref(&self, a: Address, i: U256) -> (r: Result<U256, Self::Error>) ensures r == self.storage_spec(a, i);
}
pub fn drop<T>(t: T) {}
