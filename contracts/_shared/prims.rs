// ---- TRUSTED stand-ins: revm primitive value types used only through ==, Clone, Hash in this unit ----
// (opaque identities; no arithmetic is available on them here)
pub type TxId = usize;
#[derive(PartialEq, Eq, Structural, Clone, Copy, Hash)] pub struct Address(pub u64);
#[derive(PartialEq, Eq, Structural, Clone, Copy, Hash)] pub struct B256(pub u64);
#[derive(PartialEq, Eq, Structural, Clone, Copy, Hash)] pub struct U256(pub u64);
#[derive(PartialEq, Eq, Structural, Clone, Copy)] pub struct Bytecode(pub u64);
#[derive(PartialEq, Eq, Structural, Clone, Copy)] pub struct AccountInfo { pub balance: U256, pub nonce: u64, pub code_hash: B256, pub code: Option<Bytecode> }
impl U256 { pub const ZERO: U256 = U256(0); }
pub enum EVMError<E> { Transaction(InvalidTransaction), Header(u8), Database(E), Custom(String) }
#[derive(PartialEq, Eq, Structural, Clone, Copy)] pub struct InvalidTransaction(pub u64);
pub struct GrevmError<E> { pub txid: TxId, pub error: EVMError<E> }
pub trait DatabaseRef { type Error; }
#[verifier::external_body] proof fn axiom_key_models()
    ensures vstd::std_specs::hash::obeys_key_model::<LocationAndType>(),
            vstd::std_specs::hash::obeys_key_model::<Address>(),
            vstd::std_specs::hash::obeys_key_model::<usize>(),
{}
pub fn drop<T>(t: T) {}
