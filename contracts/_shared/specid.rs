// ---- TRUSTED stand-in: revm_primitives::hardfork::SpecId (all variants of the pinned version) ----
// `is_enabled_in` is the real ordering on the fork sequence (self as u8 >= other as u8), so contracts can
// speak about any fork boundary a plausible edit may name.
#[derive(PartialEq, Eq, Structural, Clone, Copy)]
#[allow(non_camel_case_types)]
pub enum SpecId { FRONTIER, HOMESTEAD, TANGERINE, SPURIOUS_DRAGON, BYZANTIUM, PETERSBURG, ISTANBUL, BERLIN, LONDON, MERGE, SHANGHAI, CANCUN, PRAGUE, OSAKA, AMSTERDAM }
impl SpecId {
    pub open spec fn ord(self) -> int {
        match self { SpecId::FRONTIER => 0, SpecId::HOMESTEAD => 1, SpecId::TANGERINE => 2, SpecId::SPURIOUS_DRAGON => 3, SpecId::BYZANTIUM => 4,
            SpecId::PETERSBURG => 5, SpecId::ISTANBUL => 6, SpecId::BERLIN => 7, SpecId::LONDON => 8, SpecId::MERGE => 9, SpecId::SHANGHAI => 10,
            SpecId::CANCUN => 11, SpecId::PRAGUE => 12, SpecId::OSAKA => 13, SpecId::AMSTERDAM => 14 }
    }
    pub open spec fn enabled(self, o: SpecId) -> bool { self.ord() >= o.ord() }
    #[verifier::external_body]
    pub fn is_enabled_in(self, o: SpecId) -> (b: bool) ensures b == self.enabled(o) { unimplemented!() }
    pub fn clone(&self) -> (r: Self) ensures r == *self { *self }
}
pub mod revm_primitives { pub mod hardfork { pub use crate::SpecId; } }
