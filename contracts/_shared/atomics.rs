// ---- TRUSTED stand-ins: std atomics with rely/guarantee + issued-fact specs (DESIGN §3.2, §3.3) ----
// Every value ever held by a cell satisfies `inv` (loads rely on it, writes must guarantee it).
// `rewound_le/published_ge/claimed/stamp` are *issued facts*: they can only be learnt from having
// performed the corresponding operation on this cell; nothing ever states their negation.
pub enum Ordering { Relaxed, Release, Acquire, AcqRel, SeqCst }

#[verifier::external_body]
pub struct AtomicUsize { x: core::sync::atomic::AtomicUsize }
impl AtomicUsize {
    pub uninterp spec fn inv(&self, v: usize) -> bool;
    pub uninterp spec fn observed(&self, v: usize) -> bool;
    pub uninterp spec fn rewound_le(&self, v: usize) -> bool;
    pub uninterp spec fn published_ge(&self, v: usize) -> bool;
    pub uninterp spec fn claimed(&self, v: usize) -> bool;
    pub uninterp spec fn stamp(&self, v: usize) -> bool;
    pub uninterp spec fn stamp_any(&self) -> bool;
    pub uninterp spec fn stored(&self, v: usize) -> bool;
    pub uninterp spec fn store_allowed(&self) -> bool;
    #[verifier::external_body]
    pub fn load(&self, o: Ordering) -> (v: usize)
        ensures self.inv(v), self.observed(v) { unimplemented!() }
    #[verifier::external_body]
    pub fn store(&self, v: usize, o: Ordering)
        requires self.inv(v), self.store_allowed(), ensures self.stored(v) { unimplemented!() }
    #[verifier::external_body]
    pub fn fetch_max(&self, v: usize, o: Ordering) -> (p: usize)
        requires self.inv(v), ensures self.inv(p), self.observed(p), self.published_ge(v) { unimplemented!() }
    #[verifier::external_body]
    pub fn fetch_min(&self, v: usize, o: Ordering) -> (p: usize)
        requires self.inv(v), ensures self.inv(p), self.observed(p), self.rewound_le(v) { unimplemented!() }
    #[verifier::external_body]
    pub fn fetch_add(&self, d: usize, o: Ordering) -> (p: usize)
        requires forall|x: usize| #[trigger] self.inv(x) ==> self.inv(x.wrapping_add(d)),
        ensures self.inv(p), self.observed(p), self.stamp(p), self.stamp_any() { unimplemented!() }
    /// assumed of std: a successful CAS returns Ok(current); it is the only way to learn `claimed`.
    #[verifier::external_body]
    pub fn compare_exchange_weak(&self, current: usize, new: usize, s: Ordering, f: Ordering) -> (r: Result<usize, usize>)
        requires self.inv(new),
        ensures r is Ok ==> r == Ok::<usize, usize>(current) && (new == current + 1 ==> self.claimed(current)),
                r matches Err(x) ==> self.inv(x) { unimplemented!() }
    // ---- rest of the std surface a changed idiom may reach for (a failed obligation instead of a type error) ----
    #[verifier::external_body]
    pub fn compare_exchange(&self, current: usize, new: usize, s: Ordering, f: Ordering) -> (r: Result<usize, usize>)
        requires self.inv(new),
        ensures r is Ok ==> r == Ok::<usize, usize>(current) && (new == current + 1 ==> self.claimed(current)),
                r matches Err(x) ==> self.inv(x) { unimplemented!() }
    /// unconditional overwrites and decrements are plain stores as far as the protocol is concerned
    #[verifier::external_body]
    pub fn swap(&self, v: usize, o: Ordering) -> (p: usize)
        requires self.inv(v), self.store_allowed(), ensures self.inv(p), self.observed(p), self.stored(v) { unimplemented!() }   //@ID atomicusize_swap.P1 : C02 C15
    #[verifier::external_body]
    pub fn fetch_sub(&self, d: usize, o: Ordering) -> (p: usize)
        requires self.store_allowed(), forall|x: usize| #[trigger] self.inv(x) ==> self.inv(x.wrapping_sub(d)),   //@ID atomicusize_fetch_sub.P1 : C02 C15
        ensures self.inv(p), self.observed(p) { unimplemented!() }
}

#[verifier::external_body]
pub struct AtomicBool { x: core::sync::atomic::AtomicBool }
impl AtomicBool {
    /// monotone fact: the flag has been observed/stored `true` (flags under this protocol are never reset)
    pub uninterp spec fn ever_true(&self) -> bool;
    /// protocol switch: cells that may also be stored `false` declare it in their owner's wf()
    pub uninterp spec fn may_reset(&self) -> bool;
    /// one-shot election (compare_exchange(false,true) on a never-reset flag)
    pub uninterp spec fn elected(&self) -> bool;
    /// issued fact: a load during this call returned `false`
    pub uninterp spec fn observed_false(&self) -> bool;
    #[verifier::external_body]
    pub fn load(&self, o: Ordering) -> (b: bool) ensures b && !self.may_reset() ==> self.ever_true(), !b ==> self.observed_false() { unimplemented!() }
    #[verifier::external_body]
    pub fn store(&self, v: bool, o: Ordering) requires v == true || self.may_reset(), ensures v ==> self.ever_true() { unimplemented!() }
    #[verifier::external_body]
    pub fn compare_exchange(&self, current: bool, new: bool, s: Ordering, f: Ordering) -> (r: Result<bool, bool>)
        requires current == false, new == true,
        ensures r is Ok <==> self.elected(), r is Ok ==> r == Ok::<bool, bool>(false) { unimplemented!() }
    // ---- the rest of std's AtomicBool surface, so that a changed election/flag idiom is a failed obligation and not a
    // type error: every read-modify-write that can turn the flag back to `false` needs the reset permission, and none
    // of them is an election (only compare_exchange(false, true) issues `elected()`)
    #[verifier::external_body]
    pub fn swap(&self, v: bool, o: Ordering) -> (b: bool) requires v == true || self.may_reset(), ensures v ==> self.ever_true() { unimplemented!() }   //@ID atomicbool_swap.P1 : C14 C04
    #[verifier::external_body]
    pub fn fetch_or(&self, v: bool, o: Ordering) -> (b: bool) ensures v ==> self.ever_true() { unimplemented!() }
    #[verifier::external_body]
    pub fn fetch_and(&self, v: bool, o: Ordering) -> (b: bool) requires v == true || self.may_reset() { unimplemented!() }   //@ID atomicbool_fetch_and.P1 : C14 C04
    #[verifier::external_body]
    pub fn fetch_xor(&self, v: bool, o: Ordering) -> (b: bool) requires v == false || self.may_reset() { unimplemented!() }   //@ID atomicbool_fetch_xor.P1 : C14 C04
    #[verifier::external_body]
    pub fn fetch_nand(&self, v: bool, o: Ordering) -> (b: bool) requires self.may_reset() { unimplemented!() }   //@ID atomicbool_fetch_nand.P1 : C14 C04
    #[verifier::external_body]
    pub fn compare_exchange_weak(&self, current: bool, new: bool, s: Ordering, f: Ordering) -> (r: Result<bool, bool>)
        requires new == true || self.may_reset() { unimplemented!() }   //@ID atomicbool_cas_weak.P1 : C14 C04
}

pub fn max(a: usize, b: usize) -> (r: usize) ensures r == (if a >= b { a } else { b }) { if a >= b { a } else { b } }
