/// TRUSTED: std slice::partition_point
pub assume_specification<T, P: FnMut(&T) -> bool>[ <[T]>::partition_point ](v: &[T], pred: P) -> (r: usize)
    requires forall|x: &T| pred.requires((x,)),
    ensures r <= v@.len(),
        forall|k: int| #![trigger v@[k]] 0 <= k <= v@.len()
            && (forall|i: int, b: bool| 0 <= i < k && #[trigger] pred.ensures((&v@[i],), b) ==> b)
            && (forall|i: int, b: bool| k <= i < v@.len() && #[trigger] pred.ensures((&v@[i],), b) ==> !b)
            ==> r == k;
