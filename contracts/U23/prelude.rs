// ================= U23 prelude: TRUSTED stand-ins for the journal the scan reads =================
pub trait Database {}
impl Bytecode { pub uninterp spec fn eip7702(&self) -> bool;
    #[verifier::external_body] pub fn is_eip7702(&self) -> (b: bool) ensures b == self.eip7702() { unimplemented!() } }
pub struct Account { pub info: AccountInfo }
pub struct JournalInner { pub journal: Vec<JournalEntry>, pub state: HashMap<Address, Account> }
pub struct Journal<DB> { pub inner: JournalInner, pub database: DB }
#[verifier::external_body] proof fn axiom_address_key_model() ensures vstd::std_specs::hash::obeys_key_model::<Address>() {}

// ================= specification vocabulary (from the property statement, not from the loop) =================
/// a surviving journal entry that debits its source: a non-self balance transfer of a non-zero value, or the
/// destruction of an account that had a balance
pub open spec fn debit_source(e: JournalEntry) -> Option<Address> {
    match e {
        JournalEntry::BalanceTransfer { from, to, balance } => if from != to && balance@ != 0 { Some(from) } else { None },
        JournalEntry::AccountDestroyed { address, target, had_balance, destroyed_status } => if had_balance@ != 0 { Some(address) } else { None },
        _ => None,
    }
}
pub open spec fn is_root(e: JournalEntry, tx: TxEnv) -> bool {
    e matches JournalEntry::BalanceTransfer { from, to, balance } && from == tx.caller && balance == tx.value
        && (match tx.kind { TxKind::Call(target) => to == target, TxKind::Create => true })
}
/// the one top-level value transfer of the transaction: the first matching entry at or after the checkpoint,
/// and only when the transaction carries a value
pub open spec fn is_root_at(es: Seq<JournalEntry>, start: int, tx: TxEnv, j: int) -> bool {
    tx.value@ != 0 && start <= j < es.len() && is_root(es[j], tx) && forall|k: int| start <= k < j ==> !is_root(#[trigger] es[k], tx)
}
pub open spec fn delegated(state: Map<Address, Account>, a: Address) -> bool {
    state.contains_key(a) && (match state[a].info.code { Some(c) => c.eip7702(), None => false })
}
/// entry j is a reserve-relevant debit of `a`: not the root transfer, a debit of a, and a still carries a designator
pub open spec fn counts(es: Seq<JournalEntry>, start: int, tx: TxEnv, state: Map<Address, Account>, j: int, a: Address) -> bool {
    start <= j < es.len() && !is_root_at(es, start, tx, j) && debit_source(es[j]) == Some(a) && delegated(state, a)
}
/// C13: the anchor of every account with a relevant debit in [start, hi) is its FIRST relevant debit
pub open spec fn anchors(fd: Map<Address, usize>, es: Seq<JournalEntry>, start: int, hi: int, tx: TxEnv, state: Map<Address, Account>) -> bool {
    &&& forall|a: Address| #[trigger] fd.contains_key(a) <==> exists|j: int| start <= j < hi && #[trigger] counts(es, start, tx, state, j, a)
    &&& forall|a: Address| #[trigger] fd.contains_key(a) ==> start <= fd[a] < hi && counts(es, start, tx, state, fd[a] as int, a)
            && forall|j: int| start <= j < fd[a] ==> !#[trigger] counts(es, start, tx, state, j, a)
}
/// the account (if any) for which entry i is a reserve-relevant debit
pub open spec fn hit_of(es: Seq<JournalEntry>, start: int, tx: TxEnv, state: Map<Address, Account>, i: int) -> Option<Address> {
    if is_root_at(es, start, tx, i) { None } else {
        match debit_source(es[i]) { Some(s) => if delegated(state, s) { Some(s) } else { None }, None => None }
    }
}
pub open spec fn anchor_step(fd0: Map<Address, usize>, hit: Option<Address>, i: usize) -> Map<Address, usize> {
    match hit { Some(s) => if fd0.contains_key(s) { fd0 } else { fd0.insert(s, i) }, None => fd0 }
}
/// verified: scanning one more entry with insert-if-absent keeps every anchor at the FIRST relevant debit
pub proof fn lemma_anchor_step(fd0: Map<Address, usize>, es: Seq<JournalEntry>, start: int, i: usize, tx: TxEnv, state: Map<Address, Account>)
    requires anchors(fd0, es, start, i as int, tx, state), start <= i < es.len(),
    ensures anchors(anchor_step(fd0, hit_of(es, start, tx, state, i as int), i), es, start, i + 1, tx, state),
{
    let hit = hit_of(es, start, tx, state, i as int);
    let fd1 = anchor_step(fd0, hit, i);
    assert forall|a: Address| #[trigger] counts(es, start, tx, state, i as int, a) <==> hit == Some(a) by {}
    assert forall|a: Address| #[trigger] fd1.contains_key(a) <==> exists|j: int| start <= j < i + 1 && #[trigger] counts(es, start, tx, state, j, a) by {
        if fd1.contains_key(a) {
            if fd0.contains_key(a) {
                let j = choose|j: int| start <= j < i && #[trigger] counts(es, start, tx, state, j, a);
                assert(start <= j < i + 1 && counts(es, start, tx, state, j, a));
            } else {
                assert(counts(es, start, tx, state, i as int, a));
            }
        }
        if exists|j: int| start <= j < i + 1 && #[trigger] counts(es, start, tx, state, j, a) {
            let j = choose|j: int| start <= j < i + 1 && #[trigger] counts(es, start, tx, state, j, a);
            if j < i { assert(fd0.contains_key(a)); }
        }
    }
    assert forall|a: Address| #[trigger] fd1.contains_key(a) implies start <= fd1[a] < i + 1 && counts(es, start, tx, state, fd1[a] as int, a)
            && forall|j: int| start <= j < fd1[a] ==> !#[trigger] counts(es, start, tx, state, j, a) by {
        if !fd0.contains_key(a) {
            assert forall|j: int| start <= j < i implies !#[trigger] counts(es, start, tx, state, j, a) by {}
        }
    }
}

// ---- undoing the balance journal ----
pub open spec fn sat_add(a: nat, b: nat) -> nat { if a + b <= u256_max() { a + b } else { u256_max() } }
pub open spec fn sat_sub(a: nat, b: nat) -> nat { if a >= b { (a - b) as nat } else { 0 } }
/// the balance of `a` before entry `e`, given its balance after it
pub open spec fn undo_one(e: JournalEntry, a: Address, after: nat) -> nat {
    match e {
        JournalEntry::BalanceTransfer { from, to, balance } =>
            if from == a && to != a { sat_add(after, balance@) } else if to == a && from != a { sat_sub(after, balance@) } else { after },
        JournalEntry::AccountDestroyed { address, target, had_balance, destroyed_status } =>
            if address == a { sat_add(after, had_balance@) } else if target == a { sat_sub(after, had_balance@) } else { after },
        JournalEntry::BalanceChange { address, old_balance } => if address == a { old_balance@ } else { after },
        _ => after,
    }
}
/// undo entries hi-1 down to lo
pub open spec fn undo(es: Seq<JournalEntry>, lo: int, hi: int, a: Address, after: nat) -> nat decreases hi - lo {
    if hi <= lo { after } else { undo(es, lo, hi - 1, a, undo_one(es[hi - 1], a, after)) }
}
/// the forward effect of one surviving journal entry on the balance of `a` (what revm did when it wrote the entry)
pub open spec fn forward(e: JournalEntry, a: Address, before: nat, after: nat) -> bool {
    match e {
        JournalEntry::BalanceTransfer { from, to, balance } =>
            if from == a && to != a { before >= balance@ && after == before - balance@ }
            else if to == a && from != a { after == before + balance@ } else { after == before },
        JournalEntry::AccountDestroyed { address, target, had_balance, destroyed_status } =>
            if address == a { before == had_balance@ && after == 0 }
            else if target == a { after == before + had_balance@ } else { after == before },
        JournalEntry::BalanceChange { address, old_balance } => if address == a { before == old_balance@ } else { after == before },
        _ => after == before,
    }
}
/// verified: `undo_one` inverts the forward effect of every entry (within the 256-bit range)
pub proof fn lemma_undo_inverts_forward(e: JournalEntry, a: Address, before: nat, after: nat)
    requires forward(e, a, before, after), before <= u256_max(), after <= u256_max(),
    ensures undo_one(e, a, after) == before,      //@ID lemma_undo_inverts_forward : C13
{}

// ---- the returned vector ----
/// C13: a reported candidate is an account whose FIRST relevant debit is entry f, with its present balance and
/// the balance reconstructed for the point just before f
spec fn reported_at(d: DelegatedDebit, f: int, es: Seq<JournalEntry>, start: int, tx: TxEnv, state: Map<Address, Account>) -> bool {
    counts(es, start, tx, state, f, d.address) && (forall|j: int| start <= j < f ==> !#[trigger] counts(es, start, tx, state, j, d.address))
    && state.contains_key(d.address) && d.final_balance == state[d.address].info.balance
    && d.balance_before@ == undo(es, f, es.len() as int, d.address, d.final_balance@)
}
spec fn reported(d: DelegatedDebit, es: Seq<JournalEntry>, start: int, tx: TxEnv, state: Map<Address, Account>) -> bool {
    exists|f: int| #[trigger] reported_at(d, f, es, start, tx, state)
}
pub type K3Pair = (Address, usize);
/// the pair (account, anchor) has its candidate in the output, unless the account is absent from the final state
spec fn covered(out: Seq<DelegatedDebit>, p: (Address, usize), state: Map<Address, Account>) -> bool {
    !state.contains_key(p.0) || exists|i: int| 0 <= i < out.len() && (#[trigger] out[i]).address == p.0
}
