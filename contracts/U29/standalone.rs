pub type TxId = usize;
