#[verifier::external_body] proof fn axiom_txid_key_model() ensures vstd::std_specs::hash::obeys_key_model::<usize>() {}
impl TxDependency {
    // issued facts (assumed summaries of the interior-mutable effects; used by callers in U04)
    pub uninterp spec fn released(&self, txid: TxId) -> bool;     // remove(txid, _) has been performed
    pub uninterp spec fn committed(&self, txid: TxId) -> bool;    // commit(txid)
    pub uninterp spec fn parked(&self, txid: TxId) -> bool;       // add(txid, _) or key_tx(txid, _)
    spec fn num(&self) -> usize { self.num_txs }
    spec fn wf(&self) -> bool {
        &&& self.dependent_state.len() == self.num_txs && self.affect_txs.len() == self.num_txs
        &&& self.num_txs < usize::MAX
        &&& forall|v: usize| #[trigger] self.index.inv(v)
        &&& forall|i: int, s: HashSet<TxId>| 0 <= i < self.num_txs ==> (#[trigger] self.affect_txs@[i].inv(s) <==> forall|t: TxId| s@.contains(t) ==> t < self.num_txs)
    }
}
