pub type TxId = usize;
#[verifier::external_body] proof fn axiom_txid_key_model() ensures vstd::std_specs::hash::obeys_key_model::<usize>() {}
impl TxDependency {
    spec fn wf(&self) -> bool {
        &&& self.dependent_state.len() == self.num_txs && self.affect_txs.len() == self.num_txs
        &&& self.num_txs < usize::MAX
        &&& forall|v: usize| #[trigger] self.index.inv(v)
        &&& forall|i: int, s: HashSet<TxId>| 0 <= i < self.num_txs ==> (#[trigger] self.affect_txs@[i].inv(s) <==> forall|t: TxId| s@.contains(t) ==> t < self.num_txs)
    }
}
// ---- contract bridge: what U04's stand-in of TxDependency promises follows from the contracts proved here ----
fn bridge_remove(d: &TxDependency, txid: TxId, pop_next: bool) -> (r: Option<TxId>)
    requires d.wf(), txid < d.num_txs,
    ensures !pop_next ==> r is None, r matches Some(n) ==> n == txid + 1 && n < d.num_txs,   //@ID bridge_remove : C16
{ d.remove(txid, pop_next) }
fn bridge_next(d: &TxDependency) -> (r: Option<TxId>)
    requires d.wf(),
    ensures r matches Some(i) ==> i < d.num_txs,   //@ID bridge_next : C16
{ d.next() }
