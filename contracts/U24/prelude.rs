// ================= U22 prelude: TRUSTED stand-ins =================
#[derive(PartialEq, Eq, Structural, Clone, Copy)] pub enum TxKind { Create, Call(Address) }
pub struct TxEnv { pub caller: Address, pub value: U256, pub kind: TxKind }
#[derive(PartialEq, Eq, Structural, Clone, Copy)] pub struct JournalCheckpoint { pub log_i: usize, pub journal_i: usize }
pub enum JournalEntry {
    BalanceTransfer { from: Address, to: Address, balance: U256 },
    AccountDestroyed { address: Address, target: Address, had_balance: U256, destroyed_status: u8 },
    BalanceChange { address: Address, old_balance: U256 },
    NonceBump { address: Address },
    Other(u8),
}
#[verifier::external_body] pub struct ReservePlanner { p: u8 }
impl ReservePlanner {
    pub uninterp spec fn req(&self, txid: TxId, a: Address) -> U256;
    #[verifier::external_body] pub fn required_after(&self, txid: TxId, a: Address) -> (r: U256) ensures r == self.req(txid, a) { unimplemented!() }
}
#[derive(PartialEq, Eq, Structural, Clone, Copy)] pub enum BeneficiaryMode { Deferred, Immediate }
#[derive(Clone, Copy)] pub struct DeferredBeneficiaryReward(pub U256);
/// std Cell<T>: interior mutable; `get/take` answer one fixed `content()` per call, `set` leaves an issued fact
#[verifier::external_body] #[verifier::reject_recursive_types(T)] pub struct Cell<T> { p: core::marker::PhantomData<T> }
impl<T: Copy> Cell<T> {
    pub uninterp spec fn content(&self) -> T;
    pub uninterp spec fn was_set(&self, v: T) -> bool;
    #[verifier::external_body] pub fn get(&self) -> (r: T) ensures r == self.content() { unimplemented!() }
    #[verifier::external_body] pub fn set(&self, v: T) ensures self.was_set(v) { unimplemented!() }
}
impl<T: Copy> Cell<Option<T>> {
    pub uninterp spec fn taken(&self) -> bool;
    #[verifier::external_body] pub fn take(&self) -> (r: Option<T>) ensures r == self.content(), self.taken() { unimplemented!() }
}
pub struct BlockEnv { pub p: u8 }
pub struct EvmState { pub p: u8 }
pub struct FrameInit { pub p: u8 }
pub struct HaltReason { pub p: u8 }
#[derive(PartialEq, Eq, Structural, Clone, Copy)] pub struct ResultGas { pub spent: u64, pub refunded: u64, pub floor: u64 }
#[derive(PartialEq, Eq, Structural, Clone, Copy)] pub struct InitialAndFloorGas { pub initial_gas: u64, pub floor_gas: u64 }
#[derive(PartialEq, Eq, Structural, Clone, Copy)] pub struct Gas { pub limit: u64, pub remaining: u64, pub refunded: i64 }
impl Gas { pub fn set_refund(&mut self, r: i64) ensures final(self).refunded == r, final(self).limit == old(self).limit, final(self).remaining == old(self).remaining { self.refunded = r; } }
#[derive(PartialEq, Eq, Structural, Clone, Copy)] pub enum InstructionResult { Stop, Return, Revert, OutOfGas, Other(u8) }
impl InstructionResult { #[verifier::external_body] pub fn is_halt(&self) -> bool { unimplemented!() } }
#[derive(PartialEq, Eq, Structural, Clone, Copy)] pub struct Bytes(pub u64);
impl Bytes { pub fn new() -> (r: Bytes) ensures r == Bytes(0) { Bytes(0) } }
#[derive(PartialEq, Eq, Structural, Clone, Copy)] pub struct InterpreterResult { pub result: InstructionResult, pub output: Bytes, pub gas: Gas }
#[derive(PartialEq, Eq, Structural, Clone, Copy)] pub struct CallOutcome { pub result: InterpreterResult, pub memory_offset: (usize, usize) }
impl CallOutcome { pub fn new(result: InterpreterResult, memory_offset: core::ops::Range<usize>) -> (r: Self) ensures r.result == result, r.memory_offset == (memory_offset.start, memory_offset.end) { CallOutcome { result, memory_offset: (memory_offset.start, memory_offset.end) } } }
#[derive(PartialEq, Eq, Structural, Clone, Copy)] pub enum FrameResult { Call(CallOutcome), Create(CallOutcome) }
impl FrameResult {
    pub open spec fn gas_s(&self) -> Gas { match self { FrameResult::Call(c) => c.result.gas, FrameResult::Create(c) => c.result.gas } }
    pub open spec fn res_s(&self) -> InstructionResult { match self { FrameResult::Call(c) => c.result.result, FrameResult::Create(c) => c.result.result } }
    pub fn gas(&self) -> (g: &Gas) ensures *g == self.gas_s() { match self { FrameResult::Call(c) => &c.result.gas, FrameResult::Create(c) => &c.result.gas } }
    pub fn instruction_result(&self) -> (r: InstructionResult) ensures r == self.res_s() { match self { FrameResult::Call(c) => c.result.result, FrameResult::Create(c) => c.result.result } }
}
impl TxKind { pub fn is_create(&self) -> (b: bool) ensures b == (*self is Create) { match self { TxKind::Create => true, _ => false } } }
impl TxEnv { pub fn kind(&self) -> (k: TxKind) ensures k == self.kind { self.kind } pub fn caller(&self) -> (a: Address) ensures a == self.caller { self.caller } }
/// ghost log of journal / handler events on one EVM (the order is what C13's revert-and-recharge sentence is about)
pub enum Ev { Deduct, LoadAccounts, Auth, Checkpoint, Refund(i64), Floor, Reimburse, Revert(JournalCheckpoint), Commit, NonceBump(Address), Reward }
pub struct JournaledAccount { pub p: u8 }
impl JournaledAccount { #[verifier::external_body] pub fn bump_nonce(&mut self) -> bool { unimplemented!() } }
pub struct StateLoadMut<'a> { pub data: &'a mut JournaledAccount, pub is_cold: bool }
pub trait Database { type Error; }
pub trait JournalTr { type State;
    spec fn jlog(&self) -> Seq<Ev>;
    fn checkpoint(&mut self) -> (c: JournalCheckpoint) ensures final(self).jlog() == old(self).jlog().push(Ev::Checkpoint);
    fn checkpoint_revert(&mut self, c: JournalCheckpoint) ensures final(self).jlog() == old(self).jlog().push(Ev::Revert(c));
    fn checkpoint_commit(&mut self) ensures final(self).jlog() == old(self).jlog().push(Ev::Commit);
    fn load_account_mut(&mut self, a: Address) -> (r: Result<StateLoadMut<'_>, <Self::Db as Database>::Error>)
        ensures final(self).jlog() == old(self).jlog().push(Ev::NonceBump(a));
    type Db: Database;
}
pub trait ContextTr { type Block; type Tx; type Db: Database; type Journal: JournalTr<Db = Self::Db>;
    spec fn journal_s(&self) -> Self::Journal;
    spec fn tx_s(&self) -> Self::Tx;
    fn journal(&self) -> (j: &Self::Journal) ensures *j == self.journal_s();
    fn journal_mut(&mut self) -> (j: &mut Self::Journal) ensures *j == old(self).journal_s(), final(self).journal_s() == *final(j), final(self).tx_s() == old(self).tx_s();
    fn tx(&self) -> (t: &Self::Tx) ensures *t == self.tx_s(); }
pub trait FrameTr { type FrameResult; type FrameInit; }
pub trait EvmTr { type Context: ContextTr; type Frame;
    spec fn ctx_s(&self) -> Self::Context;
    fn ctx_ref(&self) -> (c: &Self::Context) ensures *c == self.ctx_s();
    fn ctx(&mut self) -> (c: &mut Self::Context) ensures *c == old(self).ctx_s(), final(self).ctx_s() == *final(c); }
pub trait EvmTrError<EVM: EvmTr>: From<InvalidTransaction> + From<<<EVM::Context as ContextTr>::Db as Database>::Error> {}
pub open spec fn elog<EVM: EvmTr>(e: &EVM) -> Seq<Ev> { e.ctx_s().journal_s().jlog() }
pub open spec fn etx<EVM: EvmTr>(e: &EVM) -> <EVM::Context as ContextTr>::Tx { e.ctx_s().tx_s() }
/// revm's `Handler` as overridden by WithReserveHandler: only the two overridden hooks are trait items here;
/// the default steps it calls are inherent stand-ins below (each appends its event to the EVM's log)
trait Handler { type Evm: EvmTr; type Error; type HaltReason;
    /// what the implementor needs from revm's call protocol (pre_execution first, post_execution once after it)
    spec fn pre_ok(&self) -> bool;
    spec fn post_ok(&self) -> bool;
    fn pre_execution(&self, evm: &mut Self::Evm, init_and_floor_gas: &mut InitialAndFloorGas) -> Result<u64, Self::Error>
        requires self.pre_ok();
    fn post_execution(&self, evm: &mut Self::Evm, exec_result: &mut FrameResult, init_and_floor_gas: InitialAndFloorGas, eip7702_gas_refund: i64) -> Result<ResultGas, Self::Error>
        requires self.post_ok();
}
pub mod post_execution {
    use super::*;
    pub uninterp spec fn result_gas_spec(is_halt: bool, gas: Gas, g: InitialAndFloorGas) -> ResultGas;
    #[verifier::external_body] pub fn build_result_gas(is_halt: bool, gas: &Gas, g: InitialAndFloorGas) -> (r: ResultGas) ensures r == result_gas_spec(is_halt, *gas, g) { unimplemented!() }
}
pub mod revm { pub mod interpreter { pub use crate::Gas; } }
impl<'a, EVM: EvmTr, ERROR, FRAME> WithReserveHandler<'a, EVM, ERROR, FRAME> {
    #[verifier::external_body] pub fn validate_against_state_and_deduct_caller(&self, evm: &mut EVM, g: &mut InitialAndFloorGas) -> (r: Result<(), ERROR>)
        ensures elog(final(evm)) == elog(old(evm)).push(Ev::Deduct), etx(final(evm)) == etx(old(evm)) { unimplemented!() }
    #[verifier::external_body] pub fn load_accounts(&self, evm: &mut EVM) -> (r: Result<(), ERROR>)
        ensures elog(final(evm)) == elog(old(evm)).push(Ev::LoadAccounts), etx(final(evm)) == etx(old(evm)) { unimplemented!() }
    #[verifier::external_body] pub fn apply_eip7702_auth_list(&self, evm: &mut EVM, g: &mut InitialAndFloorGas) -> (r: Result<u64, ERROR>)
        ensures elog(final(evm)) == elog(old(evm)).push(Ev::Auth), etx(final(evm)) == etx(old(evm)) { unimplemented!() }
    #[verifier::external_body] pub fn refund(&self, evm: &mut EVM, exec_result: &mut FrameResult, eip7702_refund: i64)
        ensures elog(final(evm)) == elog(old(evm)).push(Ev::Refund(eip7702_refund)), etx(final(evm)) == etx(old(evm)),
                final(exec_result).res_s() == old(exec_result).res_s() { unimplemented!() }
    #[verifier::external_body] pub fn eip7623_check_gas_floor(&self, evm: &mut EVM, exec_result: &mut FrameResult, g: InitialAndFloorGas)
        ensures elog(final(evm)) == elog(old(evm)).push(Ev::Floor), etx(final(evm)) == etx(old(evm)),
                final(exec_result).res_s() == old(exec_result).res_s() { unimplemented!() }
    #[verifier::external_body] pub fn reimburse_caller(&self, evm: &mut EVM, exec_result: &mut FrameResult) -> (r: Result<(), ERROR>)
        ensures elog(final(evm)) == elog(old(evm)).push(Ev::Reimburse), etx(final(evm)) == etx(old(evm)),
                *final(exec_result) == *old(exec_result) { unimplemented!() }
}
impl BeneficiaryMode {
    /// beneficiary/reward.rs (real code under contract in U08): appends the reward step
    #[verifier::external_body] pub fn apply<EVM: EvmTr, ERROR>(self, evm: &mut EVM, exec_result: &mut FrameResult, d: &Cell<Option<DeferredBeneficiaryReward>>) -> (r: Result<(), ERROR>)
        ensures elog(final(evm)) == elog(old(evm)).push(Ev::Reward), *final(exec_result) == *old(exec_result) { unimplemented!() }
}
// ================= specification vocabulary =================
/// C13: violated iff the account ends below min(balance before its first delegated debit, future cost), future cost != 0
spec fn violates(p: &ReservePlanner, txid: TxId, c: DelegatedDebit) -> bool {
    let f = p.req(txid, c.address);
    f@ != 0 && c.final_balance@ < (if c.balance_before@ <= f@ { c.balance_before@ } else { f@ })
}
