// ================= U21 prelude: TRUSTED stand-ins for revm's EVM builder =================
pub const CREATE: u8 = 0xF0;
pub const CREATE2: u8 = 0xF5;
pub trait Host {}
pub trait AlloyDatabase {}
#[derive(PartialEq, Eq, Structural, Clone, Copy)] pub struct InstrId(pub u64);
pub struct EthInterpreter { pub p: u8 }
/// identity of the instruction obtained by wrapping a function item (every fn item has its own type)
pub uninterp spec fn instr_id<F>(f: F) -> InstrId;
/// stock table of the selected fork: opcode -> (instruction identity, static gas)
pub uninterp spec fn mainnet_table(spec: SpecId) -> Map<u8, (InstrId, u64)>;
pub struct InstructionContext<'a, H: ?Sized, WIRE> { pub host: &'a mut H, pub w: core::marker::PhantomData<WIRE> }
pub type InstructionExecResult = Result<(), u8>;
pub fn guarded_create<const IS_CREATE2: bool, WIRE, H: Host + ?Sized>(context: InstructionContext<'_, H, WIRE>) -> InstructionExecResult { Ok(()) }
pub struct Instruction<W, H: ?Sized> { pub id: InstrId, pub p: core::marker::PhantomData<(W, *const H)> }
impl<W, H: Host + ?Sized> Instruction<W, H> {
    /// assumed: wrapping a function item yields that function's identity; the two instantiations the
    /// code may pass are told apart by the const parameter (see the two overloads below)
    #[verifier::external_body] pub fn new<F: for<'a> Fn(InstructionContext<'a, H, W>) -> InstructionExecResult>(f: F) -> (r: Self) ensures r.id == instr_id(f) { unimplemented!() }
}
#[verifier::external_body] #[verifier::reject_recursive_types(W)] #[verifier::reject_recursive_types(CTX)]
pub struct EthInstructions<W, CTX> { p: core::marker::PhantomData<(W, CTX)> }
impl<W, CTX: Host> EthInstructions<W, CTX> {
    pub uninterp spec fn view(&self) -> Map<u8, (InstrId, u64)>;
    #[verifier::external_body] pub fn new_mainnet_with_spec(spec: SpecId) -> (r: Self) ensures r@ == mainnet_table(spec) { unimplemented!() }
    #[verifier::external_body] pub fn insert_instruction(&mut self, opcode: u8, instruction: Instruction<W, CTX>, static_gas: u64)
        ensures final(self)@ == old(self)@.insert(opcode, (instruction.id, static_gas)) { unimplemented!() }
}

// ---- revm Context builder / EVM (only what build_evm touches) ----
#[derive(Clone, Copy)] pub struct CfgEnv { pub spec: SpecId, pub chain_id: u64, pub disable_nonce_check: bool }
#[derive(Clone, Copy)] pub struct BlockEnv { pub beneficiary: Address, pub number: u64 }
pub struct NoOpInspector {}
pub struct PrecompileSpecId(pub SpecId);
impl PrecompileSpecId { pub fn from_spec_id(s: SpecId) -> (r: Self) ensures r.0 == s { PrecompileSpecId(s) } }
pub struct Precompiles { pub spec: SpecId }
impl Precompiles { pub fn new(s: PrecompileSpecId) -> (r: &'static Precompiles) ensures r.spec == s.0 { proof_new(s) } }
#[verifier::external_body] fn proof_new(s: PrecompileSpecId) -> (r: &'static Precompiles) ensures r.spec == s.0 { unimplemented!() }
#[derive(PartialEq, Eq, Structural, Clone, Copy)] pub struct PcId(pub u64);
pub struct DynPrecompile { pub id: PcId }
pub struct DynParallelPrecompile { pub id: PcId }
impl DynParallelPrecompile {
    /// precompile.rs adapter (closure over a trait object; not extracted): same identity
    #[verifier::external_body] pub fn to_alloy(&self) -> (r: DynPrecompile) ensures r.id == self.id { unimplemented!() }
}
#[verifier::external_body] pub struct PrecompilesMap { p: u8 }
impl PrecompilesMap {
    /// fork whose static precompile set this map started from, and the custom registrations applied since, in order
    pub uninterp spec fn base(&self) -> SpecId;
    pub uninterp spec fn applied(&self) -> Seq<(Address, PcId)>;
    #[verifier::external_body] pub fn from_static(p: &'static Precompiles) -> (r: Self) ensures r.base() == p.spec, r.applied().len() == 0 { unimplemented!() }
    #[verifier::external_body] pub fn apply_precompile<F: FnOnce(Option<DynPrecompile>) -> Option<DynPrecompile>>(&mut self, a: &Address, f: F)
        requires f.requires((None,)),
        ensures final(self).base() == old(self).base(),
                exists|r: Option<DynPrecompile>| #[trigger] f.ensures((None,), r) && (r matches Some(x) && final(self).applied() == old(self).applied().push((*a, x.id))) { unimplemented!() }
}
pub struct GrevmContext<DB> { pub db: DB }
impl<DB> Host for GrevmContext<DB> {}
#[verifier::reject_recursive_types(DB)]
pub struct GrevmEvm<DB> { pub instruction: EthInstructions<EthInterpreter, GrevmContext<DB>>, pub precompiles: PrecompilesMap, pub cfg: CfgEnv, pub block: BlockEnv, pub db: DB }
pub struct Context;
pub struct B0; pub struct B1<DB> { pub db: DB } pub struct B2<DB> { pub db: DB, pub cfg: CfgEnv } pub struct B3<DB> { pub db: DB, pub cfg: CfgEnv, pub block: BlockEnv }
impl Context { pub fn mainnet() -> B0 { B0 } }
impl B0 { pub fn with_db<DB>(self, db: DB) -> (r: B1<DB>) ensures r.db == db { B1 { db } } }
impl<DB> B1<DB> { pub fn with_cfg(self, cfg: CfgEnv) -> (r: B2<DB>) ensures r.db == self.db, r.cfg == cfg { B2 { db: self.db, cfg } } }
impl<DB> B2<DB> { pub fn with_block(self, block: BlockEnv) -> (r: B3<DB>) ensures r.db == self.db, r.cfg == self.cfg, r.block == block { B3 { db: self.db, cfg: self.cfg, block } } }
impl<DB> B3<DB> {
    #[verifier::external_body] pub fn build_mainnet_with_inspector(self, i: NoOpInspector) -> (r: GrevmEvm<DB>)
        ensures r.instruction@ == mainnet_table(self.cfg.spec), r.cfg == self.cfg, r.block == self.block, r.db == self.db { unimplemented!() }
}
impl<DB> GrevmEvm<DB> {
    pub fn with_precompiles(self, p: PrecompilesMap) -> (r: Self) ensures r.instruction == self.instruction, r.cfg == self.cfg, r.block == self.block, r.db == self.db, r.precompiles == p
    { GrevmEvm { instruction: self.instruction, precompiles: p, cfg: self.cfg, block: self.block, db: self.db } }
}
pub open spec fn gravity_table<CTX: Host>(spec: SpecId) -> Map<u8, (InstrId, u64)> {
    mainnet_table(spec).insert(CREATE, (instr_id(guarded_create::<false, EthInterpreter, CTX>), 0)).insert(CREATE2, (instr_id(guarded_create::<true, EthInterpreter, CTX>), 0))
}
pub open spec fn regs(s: Seq<(Address, DynParallelPrecompile)>, n: int) -> Seq<(Address, PcId)> decreases n {
    if n <= 0 { Seq::empty() } else { regs(s, n - 1).push((s[n - 1].0, s[n - 1].1.id)) }
}
