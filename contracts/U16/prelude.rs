// ================= U16 prelude: TRUSTED stand-ins =================
// ---- revm_state::Account as the commit layer sees it: four status predicates, the info, the storage ----
pub struct EvmStorageSlot { pub original_value: U256, pub present_value: U256 }
pub struct Account { pub info: AccountInfo, pub original: AccountInfo, pub storage: HashMap<U256, EvmStorageSlot>, pub flags: u8 }
impl Account {
    pub uninterp spec fn touched(&self) -> bool;
    pub uninterp spec fn created(&self) -> bool;
    pub uninterp spec fn selfdestructed(&self) -> bool;
    pub uninterp spec fn empty(&self) -> bool;
    pub uninterp spec fn not_existing(&self) -> bool;
    #[verifier::external_body] pub fn is_touched(&self) -> (b: bool) ensures b == self.touched() { unimplemented!() }
    #[verifier::external_body] pub fn is_created(&self) -> (b: bool) ensures b == self.created() { unimplemented!() }
    #[verifier::external_body] pub fn is_selfdestructed(&self) -> (b: bool) ensures b == self.selfdestructed() { unimplemented!() }
    #[verifier::external_body] pub fn is_empty(&self) -> (b: bool) ensures b == self.empty() { unimplemented!() }
    #[verifier::external_body] pub fn is_loaded_as_not_existing(&self) -> (b: bool) ensures b == self.not_existing() { unimplemented!() }
    pub fn original_info(&self) -> (r: AccountInfo) ensures r == self.original { self.original }
}
impl Bytecode { pub fn clone(&self) -> (r: Self) ensures r == *self { *self } }

// ---- the ONE dispatch contract: which status operation one journal account triggers ----
pub enum Op { Untouched, Destroy, Create(AccountInfo), ClearEmpty, Change(AccountInfo) }
/// precedence taken from the property statement (C08/C10: "mirrors revm"): untouched accounts never change;
/// self-destruct wins over creation (created-and-destroyed in one block); creation wins over the empty-touch
/// clearing (a newly materialised empty account is created, not cleared); otherwise an ordinary change
pub open spec fn dispatch_of(a: Account) -> Op {
    if !a.touched() { Op::Untouched }
    else if a.selfdestructed() { Op::Destroy }
    else if a.created() { Op::Create(a.info) }
    else if a.empty() { Op::ClearEmpty }
    else { Op::Change(a.info) }
}
/// C08: destroy, (re-)creation and empty-touch clearing drop the cached storage of the address
pub open spec fn clears(op: Op) -> bool { op is Destroy || op is Create || op is ClearEmpty }
/// call permission carried by a cached-account value handed out for mutation
pub uninterp spec fn permitted<T>(acct: T, op: Op) -> bool;
/// issued fact: the status operation `op` ran and returned `r`
pub uninterp spec fn produced(op: Op, r: Option<TransitionAccount>) -> bool;

// ---- DashMap ----
#[verifier::external_body] #[verifier::reject_recursive_types(K)] #[verifier::reject_recursive_types(V)] #[verifier::reject_recursive_types(S)]
pub struct DashMap<K, V, S = ()> { p: core::marker::PhantomData<(K, V, S)> }
#[verifier::external_body] #[verifier::reject_recursive_types(K)] #[verifier::reject_recursive_types(V)]
pub struct Ref<'a, K, V> { p: core::marker::PhantomData<&'a (K, V)> }
#[verifier::external_body] #[verifier::reject_recursive_types(K)] #[verifier::reject_recursive_types(V)]
pub struct RefMut<'a, K, V> { p: core::marker::PhantomData<&'a (K, V)> }
#[verifier::external_body] #[verifier::reject_recursive_types(K)] #[verifier::reject_recursive_types(V)]
pub struct Entry<'a, K, V> { p: core::marker::PhantomData<&'a (K, V)> }
impl<'a, K, V> Ref<'a, K, V> { pub uninterp spec fn view(&self) -> V; }
impl<'a, K, V> Deref for Ref<'a, K, V> { type Target = V; #[verifier::external_body] fn deref(&self) -> (r: &V) ensures *r == self@ { unimplemented!() } }
impl<'a, K, V> RefMut<'a, K, V> { pub uninterp spec fn view(&self) -> V; }
impl<'a, K, V> Deref for RefMut<'a, K, V> { type Target = V; #[verifier::external_body] fn deref(&self) -> (r: &V) ensures *r == self@ { unimplemented!() } }
impl<'a, K, V> DerefMut for RefMut<'a, K, V> { #[verifier::external_body] fn deref_mut(&mut self) -> (r: &mut V) ensures *r == old(self)@, *final(r) == final(self)@ { unimplemented!() } }
impl<'a, K, V> Entry<'a, K, V> {
    #[verifier::external_body] pub fn or_insert_with<F: FnOnce() -> V>(self, f: F) -> (r: RefMut<'a, K, V>) requires f.requires(()) { unimplemented!() }
}
impl<K, V, S> DashMap<K, V, S> {
    /// caller-history fact: an entry for `k` exists
    pub uninterp spec fn present(&self, k: K) -> bool;
    /// permission granted by the caller: the entry at `k` may undergo `op`
    pub uninterp spec fn may(&self, k: K, op: Op) -> bool;
    pub uninterp spec fn may_remove(&self, k: K) -> bool;
    /// issued fact: `remove(k)` ran
    pub uninterp spec fn removed(&self, k: K) -> bool;
}
impl<K, V> DashMap<K, V> {
    #[verifier::external_body] pub fn get_mut(&self, k: &K) -> (r: Option<RefMut<'_, K, V>>)
        ensures self.present(*k) ==> r is Some, r matches Some(g) ==> forall|op: Op| #[trigger] permitted(g@, op) == self.may(*k, op) { unimplemented!() }
    #[verifier::external_body] pub fn remove(&self, k: &K) -> (r: Option<(K, V)>)
        requires self.may_remove(*k),      //@ID dashmap_remove.P1 : C08 C10
        ensures self.removed(*k) { unimplemented!() }
    #[verifier::external_body] pub fn entry(&self, k: K) -> (r: Entry<'_, K, V>) { unimplemented!() }
}

// ---- upstream's account map (primitives::AddressMap / B256Map = HashMap with a fixed hasher) and its entry API ----
#[verifier::external_body] #[verifier::reject_recursive_types(V)] pub struct AddressMap<V> { p: core::marker::PhantomData<V> }
#[verifier::external_body] #[verifier::reject_recursive_types(V)] pub struct B256Map<V> { p: core::marker::PhantomData<V> }
pub mod hash_map {
    use super::*;
    #[verifier::external_body] #[verifier::reject_recursive_types(K)] #[verifier::reject_recursive_types(V)]
    pub struct OccupiedEntry<'a, K, V> { p: core::marker::PhantomData<&'a (K, V)> }
    #[verifier::external_body] #[verifier::reject_recursive_types(K)] #[verifier::reject_recursive_types(V)]
    pub struct VacantEntry<'a, K, V> { p: core::marker::PhantomData<&'a (K, V)> }
    #[verifier::reject_recursive_types(K)] #[verifier::reject_recursive_types(V)]
    pub enum Entry<'a, K, V> { Occupied(OccupiedEntry<'a, K, V>), Vacant(VacantEntry<'a, K, V>) }
    impl<'a, K, V> OccupiedEntry<'a, K, V> {
        pub uninterp spec fn may(&self, op: Op) -> bool;
        #[verifier::external_body] pub fn into_mut(self) -> (r: &'a mut V) ensures forall|op: Op| #[trigger] permitted(*r, op) == self.may(op) { unimplemented!() }
    }
    impl<'a, K, V> VacantEntry<'a, K, V> {
        pub uninterp spec fn may(&self, op: Op) -> bool;
        #[verifier::external_body] pub fn insert(self, v: V) -> (r: &'a mut V) ensures *r == v, forall|op: Op| #[trigger] permitted(*r, op) == self.may(op) { unimplemented!() }
    }
}
impl<V> AddressMap<V> {
    pub uninterp spec fn may(&self, k: Address, op: Op) -> bool;
    #[verifier::external_body] pub fn entry(&mut self, k: Address) -> (r: hash_map::Entry<'_, Address, V>)
        ensures match r { hash_map::Entry::Occupied(e) => forall|op: Op| #[trigger] e.may(op) == old(self).may(k, op),
                          hash_map::Entry::Vacant(e) => forall|op: Op| #[trigger] e.may(op) == old(self).may(k, op) } { unimplemented!() }
}
pub type EvmState = HashMap<Address, Account>;
#[verifier::external_body] proof fn axiom_address_key_model() ensures vstd::std_specs::hash::obeys_key_model::<Address>() {}
/// typed view (pins the element type of a Vec whose type rustc only infers from a later `push`)
pub open spec fn tr(v: &Vec<(Address, TransitionAccount)>) -> Seq<(Address, TransitionAccount)> { v@ }
/// the transition (if any) that dispatching (a, acc) produced has been collected into `out`
pub open spec fn collected(out: Seq<(Address, TransitionAccount)>, a: Address, acc: Account) -> bool {
    dispatch_of(acc) is Untouched || exists|rr: Option<TransitionAccount>| #[trigger] produced(dispatch_of(acc), rr)
        && (match rr { Some(t) => exists|i: int| 0 <= i < out.len() && #[trigger] out[i] == (a, t), None => true })
}
