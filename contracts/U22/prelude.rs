// ================= U22 prelude: TRUSTED stand-ins =================
#[derive(PartialEq, Eq, Structural, Clone, Copy)] pub enum TxKind { Create, Call(Address) }
pub struct TxEnv { pub caller: Address, pub value: U256, pub kind: TxKind }
#[derive(Clone, Copy)] pub struct JournalCheckpoint { pub log_i: usize, pub journal_i: usize }
pub enum JournalEntry {
    BalanceTransfer { from: Address, to: Address, balance: U256 },
    AccountDestroyed { address: Address, target: Address, had_balance: U256, destroyed_status: u8 },
    BalanceChange { address: Address, old_balance: U256 },
    NonceBump { address: Address },
    Other(u8),
}
#[verifier::external_body] pub struct ReservePlanner { p: u8 }
impl ReservePlanner {
    pub uninterp spec fn req(&self, txid: TxId, a: Address) -> U256;
    #[verifier::external_body] pub fn required_after(&self, txid: TxId, a: Address) -> (r: U256) ensures r == self.req(txid, a) { unimplemented!() }
}
#[derive(PartialEq, Eq, Structural, Clone, Copy)] pub enum BeneficiaryMode { Deferred, Immediate }
#[derive(Clone, Copy)] pub struct DeferredBeneficiaryReward(pub U256);
#[verifier::external_body] #[verifier::reject_recursive_types(T)] pub struct Cell<T> { p: core::marker::PhantomData<T> }
pub struct BlockEnv { pub p: u8 }
pub struct EvmState { pub p: u8 }
pub struct FrameResult { pub p: u8 }
pub struct FrameInit { pub p: u8 }
pub trait JournalTr { type State; }
pub trait ContextTr { type Block; type Tx; type Journal: JournalTr;
    spec fn journal_s(&self) -> Self::Journal;
    spec fn tx_s(&self) -> Self::Tx;
    fn journal(&self) -> (j: &Self::Journal) ensures *j == self.journal_s();
    fn tx(&self) -> (t: &Self::Tx) ensures *t == self.tx_s(); }
pub trait FrameTr { type FrameResult; type FrameInit; }
pub trait EvmTr { type Context: ContextTr; type Frame;
    spec fn ctx_s(&self) -> Self::Context;
    fn ctx_ref(&self) -> (c: &Self::Context) ensures *c == self.ctx_s(); }
pub trait EvmTrError<EVM: EvmTr> {}

// ================= specification vocabulary =================
impl AccountReserveSchedule {
    spec fn wf(&self) -> bool {
        self.txids.len() == self.cost_from.len() && forall|i: int, j: int| 0 <= i < j < self.txids.len() ==> self.txids@[i] < self.txids@[j]
    }
}
/// C13: violated iff the account ends below min(balance before its first delegated debit, future cost), future cost != 0
spec fn violates(p: &ReservePlanner, txid: TxId, c: DelegatedDebit) -> bool {
    let f = p.req(txid, c.address);
    f@ != 0 && c.final_balance@ < (if c.balance_before@ <= f@ { c.balance_before@ } else { f@ })
}
