// ================= U12 prelude: TRUSTED stand-ins =================
/// revm::Database as implemented by IncarnationDb (only the extracted methods)
trait Database {
    type Error;
    fn basic(&mut self, address: Address) -> Result<Option<AccountInfo>, Self::Error>;
    fn code_by_hash(&mut self, code_hash: B256) -> Result<Bytecode, Self::Error>;
    fn storage(&mut self, address: Address, index: U256) -> Result<U256, Self::Error>;
}
// ---- beneficiary history (beneficiary.rs / history.rs): one function of (txid) per call ----
pub struct BeneficiaryRead { pub account: Option<AccountInfo>, pub version: BeneficiaryReadVersion }
impl BeneficiaryRead {
    pub fn into_parts(self) -> (r: (Option<AccountInfo>, BeneficiaryReadVersion)) ensures r.0 == self.account, r.1 == self.version { (self.account, self.version) }
}
#[verifier::external_body] pub struct Beneficiary { p: u8 }
impl Beneficiary {
    pub uninterp spec fn addr(&self) -> Address;
    pub uninterp spec fn resolve_spec(&self, txid: TxId) -> Result<BeneficiaryRead, TxId>;
    #[verifier::external_body] pub fn matches(&self, a: Address) -> (b: bool) ensures b == (self.addr() == a) { unimplemented!() }
    #[verifier::external_body] pub fn resolve_before(&self, txid: TxId) -> (r: Result<BeneficiaryRead, TxId>)
        ensures r == self.resolve_spec(txid), r matches Err(w) ==> w < txid { unimplemented!() }
}
impl vstd::std_specs::convert::FromSpecImpl<&AccountInfo> for AccountBasic {
    open spec fn obeys_from_spec() -> bool { true }
    closed spec fn from_spec(info: &AccountInfo) -> Self {
        AccountBasic { balance: info.balance, nonce: info.nonce, code_hash: if info.code_hash != KECCAK_EMPTY { Some(info.code_hash) } else { None } }
    }
}

// ================= U12 specification vocabulary =================
type MvView = Map<LocationAndType, BTreeMap<MemoryEntry>>;
/// the writer a read of `loc` by transaction `txid` resolves to: latest entry strictly before `txid`
spec fn writer(mv: MvView, loc: LocationAndType, txid: TxId) -> Option<TxId> {
    if mv.contains_key(loc) { latest_before(mv[loc]@, txid as int) } else { None }
}
spec fn entry_of(mv: MvView, loc: LocationAndType, k: TxId) -> MemoryEntry { mv[loc]@[k] }
/// the writer, provided its entry has the kind of value this location kind carries
spec fn kind_writer(mv: MvView, loc: LocationAndType, txid: TxId) -> Option<TxId> {
    match writer(mv, loc, txid) {
        Some(k) => {
            let d = entry_of(mv, loc, k).data;
            let ok = match loc {
                LocationAndType::Basic(_) => d is Basic,
                LocationAndType::Storage(_, _) => d is Storage,
                LocationAndType::StorageReset(_) => d is StorageReset,
                LocationAndType::Code(_) => d is Code,
            };
            if ok { Some(k) } else { None }
        },
        None => None,
    }
}
spec fn ver_of(mv: MvView, loc: LocationAndType, w: Option<TxId>) -> ReadVersion {
    match w { Some(k) => ReadVersion::MvMemory(TxVersion { txid: k, incarnation: entry_of(mv, loc, k).incarnation }), None => ReadVersion::Storage }
}
spec fn est(mv: MvView, loc: LocationAndType, w: Option<TxId>) -> Set<TxId> {
    match w { Some(k) => if entry_of(mv, loc, k).estimate { set![k] } else { Set::empty() }, None => Set::empty() }
}
spec fn basic_of(i: AccountInfo) -> AccountBasic {
    AccountBasic { balance: i.balance, nonce: i.nonce, code_hash: if i.code_hash != KECCAK_EMPTY { Some(i.code_hash) } else { None } }
}
spec fn needs_code(acc: Option<AccountInfo>) -> bool {
    acc matches Some(i) && i.code_hash != KECCAK_EMPTY && i.code is None
}
spec fn with_code(i: AccountInfo, c: Bytecode) -> AccountInfo {
    AccountInfo { balance: i.balance, nonce: i.nonce, code_hash: i.code_hash, code: Some(c) }
}
