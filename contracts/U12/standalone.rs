pub struct SpeculativeResult { pub x: u64 }   // only named by TransactionResult (U00); not used in U12
