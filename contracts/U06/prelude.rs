// ---- U06: metrics used by run_once ----
impl ExecuteMetricsCollector {
    #[verifier::external_body] pub fn record_block_start(&self, n: usize) { unimplemented!() }
    #[verifier::external_body] pub fn record_validation_resets(&self, n: usize) { unimplemented!() }
    #[verifier::external_body] pub fn record_total_time(&self, d: Duration) { unimplemented!() }
    #[verifier::external_body] pub fn report(&self) { unimplemented!() }
}

// ---- U06: what one replayed transaction contributes to the outcome list ----
spec fn outcome_of<E>(res: Result<ExecutionResult, EVMError<E>>) -> Option<TxExecutionOutcome> {
    match res {
        Ok(r) => Some(TxExecutionOutcome::Executed(r)),
        Err(EVMError::Transaction(e)) => Some(TxExecutionOutcome::Skipped(e)),
        _ => None,
    }
}
/// "outcome `o` is what the replay closure's answer for global index `j` maps to"
spec fn step_done<E, F: FnMut(TxId, &TxEnv) -> Result<ExecutionResult, EVMError<E>>>(f: F, j: TxId, t: TxEnv, o: TxExecutionOutcome) -> bool {
    exists|res: Result<ExecutionResult, EVMError<E>>| #[trigger] f.ensures((j, &t), res) && outcome_of(res) == Some(o)
}
impl<DB: DatabaseRef> Scheduler<DB> {
    /// issued fact of replay_uncommitted_suffix: a sequential replay from this committed boundary was run (its result is returned)
    pub uninterp spec fn replayed_from(&self, c: CommittedPrefixEnd, r: Result<(), GrevmError<DB::Error>>) -> bool;
}

/// TRUSTED stand-in for executor::build_evm (real code under contract in U21): the replay EVM over the locked state
pub struct ReplayEvm { pub p: u8 }
#[verifier::external_body] pub fn build_evm<S, D>(state: &mut S, cfg: CfgEnv, env: BlockEnv, pre: D, forbid: bool) -> (e: ReplayEvm)
    requires build_args_ok(cfg, env, forbid),      //@ID build_evm_replay.P1 : C03 C12 C11
{ unimplemented!() }
pub assume_specification<T: ?Sized, A: core::alloc::Allocator>[ <Arc<T, A> as AsRef<T>>::as_ref ](a: &Arc<T, A>) -> (r: &T);
