// ================= U07 prelude: specification vocabulary of the deferred reward =================
/// the 256-bit value whose view is `n` (unique: lemma_u256_view_inj)
pub open spec fn u256_of(n: nat) -> U256 { choose|x: U256| x@ == n }
/// verified
pub proof fn lemma_u256_of(x: U256) ensures u256_of(x@) == x {
    let y = choose|y: U256| y@ == x@;
    lemma_u256_view_inj(y, x);
}
/// what applying a deferred reward of `amount` to `account` yields: checked addition (overflow leaves the balance),
/// an absent account is materialised from the default, every other field is kept
pub open spec fn spec_apply_reward(amount: U256, account: Option<AccountInfo>) -> AccountInfo {
    let a0 = match account { Some(a) => a, None => AccountInfo::dflt() };
    if a0.balance@ + amount@ <= u256_max() {
        AccountInfo { balance: u256_of(a0.balance@ + amount@), nonce: a0.nonce, code_hash: a0.code_hash, code: a0.code }
    } else { a0 }
}
