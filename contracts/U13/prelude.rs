// ================= U13 prelude =================
pub struct SpeculativeResult { pub x: u64 }   // named by TransactionResult (U00) only
pub struct EvmStorageSlot { pub original_value: U256, pub present_value: U256 }
pub struct Account { pub info: AccountInfo, pub flags: u8 }
impl Account {
    /// the storage slots this transaction changed (revm: `changed_storage_slots()` iterator)
    pub uninterp spec fn changed(&self) -> Seq<(U256, EvmStorageSlot)>;
    #[verifier::external_body] pub fn changed_storage_slots(&self) -> (v: Vec<(&U256, &EvmStorageSlot)>)
        ensures v@.len() == self.changed().len(), forall|i: int| 0 <= i < v@.len() ==> *(#[trigger] v@[i]).0 == self.changed()[i].0 && *v@[i].1 == self.changed()[i].1 { unimplemented!() }
}
pub type EvmState = HashMap<Address, Account>;
pub enum FinalizedAccount<'a> { Unchanged, Deleted, Created(&'a AccountInfo), Updated(&'a AccountInfo) }
pub uninterp spec fn classify(a: &Account) -> FinalizedAccount<'_>;
impl<'a> From<&'a Account> for FinalizedAccount<'a> { #[verifier::external_body] fn from(a: &'a Account) -> (r: Self) { unimplemented!() } }
impl<'a> vstd::std_specs::convert::FromSpecImpl<&'a Account> for FinalizedAccount<'a> {
    open spec fn obeys_from_spec() -> bool { true }
    open spec fn from_spec(a: &'a Account) -> Self { classify(a) }
}
impl Bytecode { pub fn clone(&self) -> (r: Self) ensures r == *self { *self } }

// ================= what one finalized account must publish (C08 / C09) =================
spec fn code_changed(info: AccountInfo, snap: Option<AccountBasic>) -> bool {
    info.code_hash != KECCAK_EMPTY && info.code is Some && (snap is None || snap->0.code_hash != Some(info.code_hash))
}
spec fn basic_changed(info: AccountInfo, snap: Option<AccountBasic>) -> bool {
    code_changed(info, snap) || snap is None || snap->0.nonce != info.nonce || snap->0.balance != info.balance
}
spec fn info_req(addr: Address, acct: Account, info: AccountInfo, snap: Option<AccountBasic>, is_ben: bool, l: LocationAndType) -> bool {
    (l == LocationAndType::Code(addr) && code_changed(info, snap))
    || (l == LocationAndType::Basic(addr) && !is_ben && basic_changed(info, snap))
    || (exists|k: int| 0 <= k < acct.changed().len() && l == LocationAndType::Storage(addr, #[trigger] acct.changed()[k].0))
}
/// `l` is a location the finalized account (addr, acct) must publish
spec fn req(addr: Address, acct: Account, snap: Option<AccountBasic>, ben: Address, l: LocationAndType) -> bool {
    let is_ben = ben == addr;
    match classify(&acct) {
        FinalizedAccount::Unchanged => false,
        FinalizedAccount::Deleted => l == LocationAndType::StorageReset(addr) || (l == LocationAndType::Basic(addr) && !is_ben),
        FinalizedAccount::Created(info) => l == LocationAndType::StorageReset(addr) || info_req(addr, acct, *info, snap, is_ben, l),
        FinalizedAccount::Updated(info) => info_req(addr, acct, *info, snap, is_ben, l),
    }
}
impl<'a, DB: DatabaseRef> IncarnationDb<'a, DB> {
    /// issued fact of publish_value for this incarnation
    pub uninterp spec fn published(&self, l: LocationAndType, v: MemoryValue, estimate: bool) -> bool;
    /// the VALUES one finalized account must publish (with this incarnation's estimate flag)
    spec fn req_pub(&self, addr: Address, acct: Account, estimate: bool) -> bool {
        let snap = self.snap(addr);
        let is_ben = self.beneficiary.addr() == addr;
        let reset = self.published(LocationAndType::StorageReset(addr), MemoryValue::StorageReset, estimate);
        match classify(&acct) {
            FinalizedAccount::Unchanged => true,
            FinalizedAccount::Deleted => reset && (!is_ben ==> self.published(LocationAndType::Basic(addr), MemoryValue::Basic(None), estimate)),
            FinalizedAccount::Created(info) => reset && self.info_pub(addr, acct, *info, estimate),
            FinalizedAccount::Updated(info) => self.info_pub(addr, acct, *info, estimate),
        }
    }
    spec fn info_pub(&self, addr: Address, acct: Account, info: AccountInfo, estimate: bool) -> bool {
        let snap = self.snap(addr);
        let is_ben = self.beneficiary.addr() == addr;
        &&& code_changed(info, snap) ==> self.published(LocationAndType::Code(addr), MemoryValue::Code(info.code->0), estimate)
        &&& !is_ben && basic_changed(info, snap) ==> self.published(LocationAndType::Basic(addr),
                MemoryValue::Basic(Some(AccountInfo { balance: info.balance, nonce: info.nonce, code_hash: info.code_hash, code: None })), estimate)
        &&& forall|k: int| 0 <= k < acct.changed().len() ==> self.published(LocationAndType::Storage(addr, (#[trigger] acct.changed()[k]).0), MemoryValue::Storage(acct.changed()[k].1.present_value), estimate)
    }
    spec fn snap(&self, a: Address) -> Option<AccountBasic> { if self.account_snapshots@.contains_key(a) { Some(self.account_snapshots@[a]) } else { None } }
}
