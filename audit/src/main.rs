//! Stand-in audit (thorough tier): the pure stand-in contracts of /verif/contracts/_shared are compared
//! with the REAL dependency on boundary and pseudo-random inputs. Reported as "audited", never as proof.
use revm_primitives::{hardfork::SpecId, U256};
use std::collections::BTreeMap;

struct Rng(u64);
impl Rng { fn next(&mut self) -> u64 { self.0 ^= self.0 << 13; self.0 ^= self.0 >> 7; self.0 ^= self.0 << 17; self.0 } }

fn main() {
    let seed: u64 = std::env::var("VERIF_SEED").ok().and_then(|s| s.parse().ok()).unwrap_or(1);
    let mut rng = Rng(seed.wrapping_mul(0x9E3779B97F4A7C15) | 1);
    let mut checked = 0u64;
    // --- SpecId: the stand-in lists these variants in this order and defines enabled(a, b) as ord(a) >= ord(b)
    let specs = [SpecId::FRONTIER, SpecId::HOMESTEAD, SpecId::TANGERINE, SpecId::SPURIOUS_DRAGON, SpecId::BYZANTIUM, SpecId::PETERSBURG,
        SpecId::ISTANBUL, SpecId::BERLIN, SpecId::LONDON, SpecId::MERGE, SpecId::SHANGHAI, SpecId::CANCUN, SpecId::PRAGUE, SpecId::OSAKA, SpecId::AMSTERDAM];
    for (i, a) in specs.iter().enumerate() { for (j, b) in specs.iter().enumerate() {
        assert_eq!(a.is_enabled_in(*b), i >= j, "SpecId stand-in ordering differs at {a:?} {b:?}"); checked += 1; } }
    // --- U256: checked_add / saturating_add / saturating_sub / is_zero / min / ordering as mathematics on the value
    let mut vals = vec![U256::ZERO, U256::from(1u8), U256::MAX, U256::MAX - U256::from(1u8), U256::from(u128::MAX), U256::from(u128::MAX) + U256::from(1u8)];
    for _ in 0..200 { vals.push(U256::from_limbs([rng.next(), rng.next(), rng.next() & if rng.next() & 1 == 0 { 0 } else { u64::MAX }, rng.next() & if rng.next() & 3 == 0 { u64::MAX } else { 0 }])); }
    for a in &vals { for b in &vals {
        let (sum, ovf) = a.overflowing_add(*b);
        assert_eq!(a.checked_add(*b), if ovf { None } else { Some(sum) });
        assert_eq!(a.saturating_add(*b), if ovf { U256::MAX } else { sum });
        assert_eq!(a.saturating_sub(*b), if a >= b { *a - *b } else { U256::ZERO });
        assert_eq!((*a).min(*b), if a <= b { *a } else { *b });
        assert_eq!(a.is_zero(), *a == U256::ZERO);
        checked += 5; } }
    // --- slice::partition_point: for a predicate true before k and false from k on, the result is k
    for _ in 0..300 {
        let n = (rng.next() % 9) as usize; let mut v: Vec<u64> = (0..n).map(|_| rng.next() % 20).collect(); v.sort(); v.dedup();
        let q = rng.next() % 22;
        let k = v.iter().filter(|x| **x <= q).count();
        assert_eq!(v.partition_point(|c| *c <= q), k); checked += 1; }
    // --- BTreeMap::range(..k).next_back() / range(..=k): greatest key strictly below (resp. at or below) the bound
    for _ in 0..300 {
        let mut m = BTreeMap::new(); for _ in 0..(rng.next() % 8) { m.insert((rng.next() % 16) as usize, rng.next()); }
        let b = (rng.next() % 18) as usize;
        let want = m.keys().copied().filter(|k| *k < b).max();
        assert_eq!(m.range(..b).next_back().map(|(k, _)| *k), want);
        let want2 = m.keys().copied().filter(|k| *k <= b).max();
        assert_eq!(m.range(..=b).next_back().map(|(k, _)| *k), want2); checked += 2; }
    println!("{{\"status\": \"ok\", \"audited\": [\"SpecId ordering (all 15 variants)\", \"U256 checked_add/saturating_add/saturating_sub/min/is_zero\", \"slice::partition_point\", \"BTreeMap::range(..k / ..=k).next_back()\"], \"unaudited\": [\"DashMap / parking_lot / atomics stand-ins (concurrency contracts)\", \"revm handler / journal / interpreter trait stand-ins\", \"vstd specs\"], \"cases\": {checked}, \"seed\": {seed}}}");
}
