#!/usr/bin/env python3
import json, os, shutil, subprocess, sys
D = os.path.dirname(os.path.abspath(__file__))
shutil.copyfile(os.path.join(os.environ.get("VERIF_REPO", "/repo"), "Cargo.lock"), os.path.join(D, "Cargo.lock"))
env = dict(os.environ); env["CARGO_NET_OFFLINE"] = "true"
pr = subprocess.run(["cargo", "run", "--quiet", "--offline"], cwd=D, capture_output=True, text=True, env=env)
if pr.returncode != 0:
    print(json.dumps({"status": "failed", "detail": (pr.stdout + pr.stderr)[-800:]}))
else:
    print(pr.stdout.strip().split("\n")[-1])
