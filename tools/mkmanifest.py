#!/usr/bin/env python3
"""Regenerate /verif/MANIFEST.json from the claim table below (kept next to the contracts so that the
claims and what verifies stay in step). Run: python3 tools/mkmanifest.py"""
import glob
import json
import os
import tomllib

HERE = os.path.dirname(os.path.dirname(os.path.abspath(__file__)))

TECH = "contract-based deductive verification: Verus obligations on functions extracted mechanically from /repo every run"

CLAIMS = {
    "C01": ("narrow: the anchored mechanisms as function-level obligations for all inputs - read resolution to the latest preceding writer else backing state (U12 storage/code_by_address/basic), write publication of every required location with its value and estimate flag (U13 publish_writes/finish_incarnation), one incarnation lifecycle begin/set_tx/run/finalize/finish-or-discard (U27), read-set validation against version and estimate flag (U04 validate), estimate marking / validation rewinds after every (re-)execution (U04 execute_task), contiguous finality gated by status, cursor and timestamp (U04 lock_finality_candidate/run_finality_loop), ordered commit (U05, U04 run_commit_loop). The end-to-end equality with stock revm over all programs x schedules is NOT decided.",
            "revm and the bundle builder are assumed dependencies; composition of the per-function facts across worker/finality/commit threads is a paper argument (DESIGN.md section 6)"),
    "C02": ("per-function obligations: each commit appends exactly one state and one outcome at boundary len+1 or nothing (U05); the commit loop calls commit with txid == outcomes so far, publishes only after apply, releases dependents only after publishing (U04 run_commit_loop); a transaction becomes Unconfirmed only if every read is currently valid with a stamp taken before the scan (U04 validate); every (re-)execution issues the rewind that re-validates successors (U04 execute_task); finality gate and no-skip (U04); rewind stamp published before the index becomes claimable (U03).",
            "composition across the three kinds of threads is on paper; atomics/locks are stand-ins with rely/guarantee and lock-scoped specs"),
    "C03": ("per-function obligations: nonce mismatch against the COMMITTED nonce is never committed speculatively and changes nothing, MAX/MAX goes to replay, no nonce-based outcome with checking off (U05); a speculative validation error only parks the transaction, sequential replay is requested only at the commit head (U04 execute_task X5); replay maps Err(Transaction(e)) to Skipped(e) with the same e and continues; its nonce-overflow pre-check is under contract, and the obligation that a Skipped reason is never fabricated ahead of revm's own validation fails there on the unchanged tree: known finding F3 (known_findings.json, DESIGN.md section 8), reported as KNOWN-FINDING, exit 0 (U06).",
            "that revm's validation is the reference is assumed; the replay closure body (EVM driving) is a stub"),
    "C04": ("narrow: on a fatal replay error the outcomes are exactly the first k-start and the error carries index k (U06 execute_sequential_suffix), and replay_uncommitted_suffix appends exactly those outcomes to the results on every exit after the replay, error or not (U06 replay part, around the abstracted EVM-driving closure); a database fault at commit returns Err(txid) and appends nothing (U05, U04 run_commit_loop E3); a fatal abort is requested only by an attempt that observes itself at the commit head (U04 X5). The sentence about failures seen only by stale speculative attempts is not decidable here (DESIGN.md section 8, F2).",
            "the body of the replay closure (EVM driving) is abstracted"),
    "C07": ("per-function obligations: reward formula and fork rule against a transcribed oracle of upstream's formula (U08 from_gas), the defer/immediate decision incl. zero reward still running revm's hook and deferral only when the beneficiary is not in the journal (U08 BeneficiaryMode::apply), checked-add / materialise-only-by-non-zero-credit / fields preserved (U07 apply_to; U05, U08 and U10 are checked against that contract), credited exactly once at commit with exactly that value, touched, absent from the speculative state (U05 E8), incarnation-guarded record/invalidate, origin-chain scan, whole-chain validation, and resolution = rewards applied oldest first by checked addition onto the nearest snapshot or the block-start anchor (U10 resolve E1, resolve_before E2), exact vs estimate publication per attempt (U04 execute_task X8), journal account classification (U11), beneficiary reads resolve through the history and never through the mutable cache (U12 basic E2).",
            "concurrent record/resolve races are not covered (each scan reads the entries through one fixed view)"),
    "C08": ("per-function obligations: journal account classification as a total decision table (U11); storage() returns the newest of reset marker and slot version, a reset masks the backing store, the same-transaction created slot wins over its own reset, both locations recorded, estimates block (U12); deletion and creation publish a reset marker that is part of the write set, deleted accounts publish an absent Basic value, changed slots publish their present value (U13); cached-account destroy operations equal revm's source (U14); the commit layer dispatches one journal account by the fixed precedence untouched > self-destructed > created > touched-empty > changed, calls exactly the matching status operation, returns its transition, and drops the cached storage of the address exactly on destroy / (re-)creation / empty-touch (U16 apply_evm_state_inner + apply_account_state, call permissions + issued facts).",
            "which changed slots reach the cached account (iterator chain, abstracted), update_storage_slot, newly_created/change and revm's fork-specific finalisation are not covered"),
    "C09": ("per-function obligations: basic() resolves basic fields and code separately (latest preceding Basic version / latest preceding Code version else backing store by hash) and records both locations; code_by_address as specified (U12); a Code version (in the write set, with the new code) and a Basic version are published whenever the post-state code hash differs from the hash read (U13 code_changed rule).",
            "EIP-7702 authorisation/nonce rules are revm's"),
    "C10": ("narrow: every status operation of CacheAccountInfo (selfdestruct, touch_empty_eip161, newly_created, change, account_info_change, increment_balance, drain_balance) proved against one common contract that revm-database's own source text also satisfies (U14); the shared read view serves exactly what the cache holds after one atomic insert-if-absent step and never overwrites an entry (U15 db_basic/db_storage/db_code_by_hash/load_mut_cache_account); apply_account_state of grevm and of revm-database's own source text satisfy one dispatch contract (U16); the parallel bundle builder, on an empty bundle, leaves exactly what merging the transitions one by one in some enumeration order leaves (state, contracts, sizes, one new block of reverts kept only when retention asks for them), and delegates to revm's own merge otherwise (U18, against a transcribed oracle of revm's Vacant-entry arm); drain_balances drains every argument address once through the committed cache, reports balance i for address i and hands exactly the transitions (address i, transition i), in argument order, to the transition state, increment_balances / increment_balance_transitions do the same for every non-zero increment and skip zero amounts, an error hands over nothing (U30; the `impl IntoIterator` argument is taken as the Vec of its items, R29).",
            "rayon is given its sequential meaning (R22); the slot map built inside newly_created/change (iterator chain, abstracted), update_storage_slot, take_bundle/merge_transitions and concurrent cache filling (finding F1) are not covered"),
    "C11": ("narrow (last sentence of the statement and the installation path): mutations in a static context are refused before any change; a recorded fault is sticky (U17 facade) and overrides whatever the implementation returns in the alloy adapter (U17 to_alloy); both EVM construction paths register the same custom precompiles in order (U21 build_evm). A storage read made through the facade reaches IncarnationDb::storage through the journal, whose read tracking (slot and reset-marker locations recorded, latest preceding writer resolved, estimates block) is proved in U12 (storage.E1).",
            "conflict detection of facade accesses end-to-end needs revm's journal and is not covered"),
    "C12": ("per-function obligations: policy inert before Prague, exact otherwise (U19 for_spec); the guard halts exactly when the frame's TARGET carries a designator, static / pre-Petersburg errors keep upstream's order, otherwise it IS upstream create after one host call (U19 guarded_create); the instruction table is revm's with exactly CREATE and CREATE2 replaced by the two guard instantiations, and it is swapped in iff the guard is on and the fork is Prague or later (U21).",
            "bit-identical behaviour of every other opcode rests on revm (assumed)"),
    "C13": ("per-function obligations: required_after = suffix strictly after txid (U22), both paths query with the logical txid (U06 call permission, U27 execute_incarnation), violation iff some surviving delegated debit has final < min(before, future) (U24 has_reserve_violation), the charged-revert sequence revert/re-bump create nonce/refund/floor/reimburse resp. commit, in revm's post-execution order (U24 enforce_reserve, pre/post_execution); the journal scan reports exactly the delegated accounts with a surviving debit after the checkpoint (the single root value transfer excluded), each with its present balance and the balance reconstructed for the point just before its FIRST such debit (U23 delegated_debits_since E1/E2), where balance_before_entry undoes the journal suffix by the inverse of each entry's forward balance effect (U23, with a verified inverse lemma); build_schedule yields, aligned with the account's txids, the saturating suffix sums of max_balance_spending (U256::MAX when that overflows) accumulated from the last transaction backwards, and ReservePlanner::required_after returns that suffix sum for the account's first transaction strictly after txid (zero if none) whichever caller initialised the lazily cached schedule (U25: OnceLock cells as rely/guarantee invariants; a bounded Kani run of build_schedule over the same extracted text complements it, labelled bounded).",
            "revm's journal and handler default steps are stand-ins; in the handler proof (U24) the planner is still the uninterpreted function req: that req is what U25 proves required_after returns is a paper link; sender_index is a contract-only stub"),
    "C14": ("per-function obligations: a non-elected call returns the 'only once' error and has no permission to reach either execution path; all three public entry points go through run_once (U06).",
            "uniqueness of a successful CAS on the never-reset flag is an assumed contract of the atomic; the take_result_and_state sentence is not decided"),
    "C15": ("per-function obligations for all interference: no index at or beyond the limit handed out, the only cursor writes are CAS c->c+1 and fetch_min (U01); the frontier never passes a transaction that has not completed an execution (U03 ExecutionFrontier); rewind publishes its stamp before making the index claimable (U03); stale validations fail the finality gate (U04). Lemma L1 and a bounded sequential Kani part complement it.",
            "'always catches up' is liveness and only checked in quiescent, bounded form; code-to-machine link of L1 rests on single-location coherence"),
    "C16": ("narrow: the per-call transitions inside each critical section (stale reverse edge releases nobody; a release re-offers by exactly one of hand-off or cursor rewind; commit/key_tx decide the barrier under the dependent's lock; a claim flips onboard under the lock) (U29).",
            "the liveness reading ('as soon as', 'whatever the interleaving') is not decidable by contracts"),
}

# properties whose claim text above is backed by units that verify in the committed tree
READY = {"C01", "C02", "C03", "C04", "C07", "C08", "C09", "C10", "C11", "C12", "C13", "C14", "C15", "C16"}

NA = {
    "C05": "liveness/deadlock-freedom over all interleavings of N+2 threads: spin/park loops have no variant without a fairness assumption, and neither Verus nor Kani has a thread semantics (DESIGN.md section 7)",
    "C06": "a relation between two runs (hyperproperty); the configuration-dependent code is one boolean test and 'each path yields the in-order result' is C01; the sub-claim about the reserve planner's logical txid is decided under C13 (DESIGN.md section 7)",
    "C17": "lost-wake-up freedom is a property of interleavings and of std's park token, not of any function's pre/postcondition (DESIGN.md section 7)",
}


def main():
    props = [json.loads(l) for l in open(os.path.join(HERE, "properties.jsonl"))]
    served = set()
    for d in glob.glob(os.path.join(HERE, "contracts", "U*", "unit.toml")):
        u = tomllib.load(open(d, "rb"))
        if u.get("disabled") or u.get("library"):
            continue
        served |= set(u.get("properties", []))
    checks, na = [], []
    for p in props:
        pid = p["id"]
        if pid in served and pid in CLAIMS and pid not in NA and pid in READY:
            text, note = CLAIMS[pid]
            checks.append({
                "property_id": pid,
                "quick_cmd": "python3 vcheck.py check %s --tier quick" % pid,
                "thorough_cmd": "python3 vcheck.py check %s --tier thorough" % pid,
                "evidence_file": "/verif/evidence/%s.json" % pid,
                "replay_cmd_template": "python3 vcheck.py replay {path}",
                "engine": "vcheck",
                "level_claimed": {"category": "proof", "text": text, "design_ref": "DESIGN.md sections 5 and 6 (%s)" % pid},
                "level_note": note + "; every stand-in / assumed contract is listed in evidence.coverage.trusted_base",
                "technique": TECH,
            })
        else:
            na.append({"property_id": pid, "reason": NA.get(pid, "no unit serving this property verifies in the committed tree yet (see DESIGN.md)")})
    m = {
        "version": 1,
        "setup_cmd": "python3 vcheck.py setup",
        "hooks": {"guard": "galxe_grevm_verif",
                  "enable": "RUSTFLAGS=\"--cfg galxe_grevm_verif\" (replay crate only; proving needs no hook)",
                  "baseline_off_cmd": "cd /repo && cargo test --workspace --no-fail-fast --offline",
                  "source_commits": [], "add_only": True},
        "engines": [{"name": "vcheck", "path": "/verif/vcheck.py", "serves_properties": [c["property_id"] for c in checks],
                     "kind_free_text": "extractor + contract splicer + Verus driver (python3 stdlib only); Kani side crates for bounded parts"}],
        "checks": checks,
        "not_applicable": na,
        "notes": "Contracts: /verif/contracts/<unit>/{unit.toml,prelude.rs (TRUSTED stand-ins),clauses.txt (spliced contracts)}; contracts/ledger.json + contracts/pinned.json are regenerated by `python3 vcheck.py ledger` on the pinned tree. Exit codes: 0 held, 1 VIOLATION, 2 undecided (never an alarm: lost anchor, unsupported construct, rlimit, or a failed obligation whose proof scaffolding no longer applies to the changed code, DESIGN.md section 2.4). Known findings: known_findings.json (F3, property C03; demonstration in findings/F3_demo.diff). Independent seeded changes with what each check reported: seeded/<id>/ and seeded/SUMMARY.json; developer aids (not registered checks): tools/.",
    }
    json.dump(m, open(os.path.join(HERE, "MANIFEST.json"), "w"), indent=1)
    print("claimed:", [c["property_id"] for c in checks])
    print("not applicable:", [x["property_id"] for x in na])


if __name__ == "__main__":
    main()
