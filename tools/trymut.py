#!/usr/bin/env python3
"""developer aid: apply a textual mutation to /repo, run property checks, always revert.
usage: trymut.py <relpath> <find> <replace> <Cxx> [<Cyy> ...]   (find must be unique)"""
import subprocess, sys, os
rel, find, repl, props = sys.argv[1], sys.argv[2], sys.argv[3], sys.argv[4:]
p = os.path.join("/repo", rel)
s = open(p).read()
if s.count(find) != 1:
    print("find string occurs %d times" % s.count(find)); sys.exit(3)
open(p, "w").write(s.replace(find, repl))
try:
    for c in props:
        r = subprocess.run(["python3", "/verif/vcheck.py", "check", c], capture_output=True, text=True)
        print("== %s exit=%d" % (c, r.returncode))
        print("\n".join(l for l in r.stdout.split("\n") if l.strip())[:1500])
finally:
    open(p, "w").write(s)
    subprocess.run(["git", "-C", "/repo", "checkout", "--", "."])
