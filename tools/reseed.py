#!/usr/bin/env python3
"""Re-run our quick checks against stored seeded changes (/verif/seeded/<id>/patch.diff).

usage: reseed.py [<seed-id> ...] [--props C01,C02] [--jobs 4]      (default: every seed)

Developer regression aid, not a registered check. Each worker owns one scratch `git worktree` of /repo under
/tmp/reseed/w<k> (removed at the end) and its own output directory (VERIF_OUT), so neither /repo nor the
registered build/evidence/replay files are touched: the patch is applied to the scratch tree, the quick check of
the seed's target property (plus the properties that detected it before, plus --props) is run with
VERIF_REPO pointing at that tree, and the tree is reset. meta.json is updated in place and a summary is written
to /verif/seeded/SUMMARY.json."""
import concurrent.futures as cf
import json
import os
import queue
import re
import shutil
import subprocess
import sys

VERIF = os.path.dirname(os.path.dirname(os.path.abspath(__file__)))
KEY = "our checks with the patch applied to /repo (then reverted)"
ROOT = "/tmp/reseed"


def sh(cmd, cwd=None, env=None):
    pr = subprocess.run(cmd, shell=True, cwd=cwd, capture_output=True, text=True, env=env)
    return pr.returncode, pr.stdout + pr.stderr


def main():
    argv = sys.argv[1:]
    extra, jobs = [], 4
    if "--props" in argv:
        i = argv.index("--props")
        extra = argv[i + 1].split(",")
        del argv[i:i + 2]
    if "--jobs" in argv:
        i = argv.index("--jobs")
        jobs = int(argv[i + 1])
        del argv[i:i + 2]
    seeds = argv or sorted(d for d in os.listdir(os.path.join(VERIF, "seeded")) if os.path.isdir(os.path.join(VERIF, "seeded", d)))
    man = json.load(open(os.path.join(VERIF, "MANIFEST.json")))
    claimed = [c["property_id"] for c in man["checks"]]
    jobs = min(jobs, len(seeds))
    os.makedirs(ROOT, exist_ok=True)
    workers = queue.Queue()
    for k in range(jobs):
        wt = os.path.join(ROOT, "w%d" % k)
        sh("git -C /repo worktree remove --force %s" % wt)
        shutil.rmtree(wt, ignore_errors=True)
        rc, out = sh("git -C /repo worktree add --detach %s HEAD" % wt)
        if rc != 0:
            print("cannot create worktree:", out)
            sys.exit(3)
        shutil.copyfile("/repo/Cargo.lock", os.path.join(wt, "Cargo.lock"))
        workers.put((wt, os.path.join(ROOT, "out%d" % k)))
    summary = {}
    sp = os.path.join(VERIF, "seeded", "SUMMARY.json")
    if os.path.exists(sp):
        summary = json.load(open(sp))

    def one(sid):
        wt, outd = workers.get()
        try:
            d = os.path.join(VERIF, "seeded", sid)
            meta = json.load(open(os.path.join(d, "meta.json")))
            target = sid[:3]
            props = [target] + [p for p in meta.get("detected_by", []) if p != target] + [p for p in extra if p != target]
            props = [p for p in dict.fromkeys(props) if p in claimed]
            rc, out = sh("git -C %s apply %s" % (wt, os.path.join(d, "patch.diff")))
            if rc != 0:
                return sid, None, "patch does not apply: " + out[-200:]
            env = dict(os.environ, VERIF_REPO=wt, VERIF_OUT=outd)
            checks = {}
            try:
                for c in props:
                    rc, out = sh("python3 vcheck.py check %s" % c, cwd=VERIF, env=env)
                    viol = re.findall(r"^VIOLATION property=(\S+) replay=(\S+)", out, re.M)
                    checks[c] = {"exit": rc, "violations": [os.path.basename(v[1]) for v in viol],
                                 "undecided": re.findall(r"^  - (.*)", out, re.M)[:4] if rc == 2 else []}
            finally:
                sh("git -C %s checkout -- ." % wt)
            meta["what_we_ran"][KEY] = checks
            meta["detected_by"] = [c for c, r in checks.items() if r["exit"] == 1]
            meta["undecided_in"] = [c for c, r in checks.items() if r["exit"] == 2]
            json.dump(meta, open(os.path.join(d, "meta.json"), "w"), indent=1)
            return sid, meta, None
        finally:
            workers.put((wt, outd))

    with cf.ThreadPoolExecutor(max_workers=jobs) as ex:
        for sid, meta, err in ex.map(one, seeds):
            if err:
                print(sid, err, flush=True)
                continue
            checks = meta["what_we_ran"][KEY]
            summary[sid] = {"detected_by": meta["detected_by"], "undecided_in": meta["undecided_in"],
                            "obligations": sorted(set(v for r in checks.values() for v in r["violations"]))[:6]}
            print(sid, "detected_by", meta["detected_by"], "undecided_in", meta["undecided_in"], summary[sid]["obligations"][:3], flush=True)
    json.dump(summary, open(sp, "w"), indent=1, sort_keys=True)
    while not workers.empty():
        wt, outd = workers.get()
        sh("git -C /repo worktree remove --force %s" % wt)
        shutil.rmtree(wt, ignore_errors=True)
        shutil.rmtree(outd, ignore_errors=True)
    sh("git -C /repo worktree prune")
    shutil.rmtree(ROOT, ignore_errors=True)


if __name__ == "__main__":
    main()
