#!/usr/bin/env python3
"""Confirm a seeded change produced by an independent sub-agent and run our checks against it.

usage: evalseed.py <worktree> <n> <seed-id> [--props C01,C02,...] [--skip-confirm]

1. confirmation in the sub-agent's scratch worktree (never /repo): with patch+demo the existing suite still
   passes and only the demonstration fails; with the demo alone (patch reverted) the demonstration passes;
2. our checks: the patch (only) is applied to the scratch worktree, every claimed property's quick check is run with
   VERIF_REPO pointing there, and the worktree is restored straight afterwards (/repo is never touched);
3. the seed is stored as /verif/seeded/<seed-id>/{patch.diff, demo.diff, meta.json}.
"""
import json
import os
import re
import subprocess
import sys

VERIF = os.path.dirname(os.path.dirname(os.path.abspath(__file__)))


def sh(cmd, cwd=None, timeout=3600):
    pr = subprocess.run(cmd, shell=True, cwd=cwd, capture_output=True, text=True, timeout=timeout)
    return pr.returncode, pr.stdout + pr.stderr


def test_summary(out):
    res = re.findall(r"test result: (\w+)\. (\d+) passed; (\d+) failed", out)
    passed = sum(int(a) for _, a, _ in res)
    failed = sum(int(b) for _, _, b in res)
    failing = sorted(set(re.findall(r"^test (\S+) \.\.\. FAILED", out, re.M)))
    return passed, failed, failing


def main():
    wt, n, sid = sys.argv[1], sys.argv[2], sys.argv[3]
    props = None
    skip = "--skip-confirm" in sys.argv
    for a in sys.argv[4:]:
        if a.startswith("--props"):
            props = sys.argv[sys.argv.index(a) + 1].split(",")
    patch = os.path.join(wt, "seed%s.patch.diff" % n)
    demo = os.path.join(wt, "seed%s.demo.diff" % n)
    meta = json.load(open(os.path.join(wt, "seed%s.meta.json" % n)))
    rec = {"seed": sid, "agent_meta": meta, "confirmation": {}, "checks": {}}

    if not skip:
        sh("git checkout -- . && git clean -fdq -- src tests", cwd=wt)
        rc, out = sh("git apply %s && git apply %s" % (patch, demo), cwd=wt)
        if rc != 0:
            rec["confirmation"]["error"] = "patch/demo do not apply: " + out[-300:]
        else:
            rc, out = sh("cargo test --workspace --no-fail-fast --offline 2>&1", cwd=wt)
            p, f, failing = test_summary(out)
            rec["confirmation"]["with_change"] = {"passed": p, "failed": f, "failing": failing}
            sh("git apply -R %s" % patch, cwd=wt)
            rc, out = sh("cargo test --workspace --no-fail-fast --offline 2>&1", cwd=wt)
            p2, f2, failing2 = test_summary(out)
            rec["confirmation"]["without_change"] = {"passed": p2, "failed": f2, "failing": failing2}
            rec["confirmation"]["confirmed"] = bool(f >= 1 and f2 == 0 and p >= 95 and p2 >= 96
                                                   and all(("seed" in x.lower() or "demo" in x.lower() or x in failing) for x in failing)
                                                   and len(failing) >= 1 and p2 == p + f)
        sh("git checkout -- . && git clean -fdq -- src tests", cwd=wt)

    man = json.load(open(os.path.join(VERIF, "MANIFEST.json")))
    claimed = [c["property_id"] for c in man["checks"]]
    run = props or claimed
    # our checks run against the sub-agent's scratch worktree (VERIF_REPO) with their outputs redirected (VERIF_OUT),
    # so neither /repo nor the registered build/evidence/replay files are touched
    rc, out = sh("git checkout -- . && git clean -fdq -- src tests && git apply %s" % patch, cwd=wt)
    if rc != 0:
        print("patch does not apply:", out)
        sys.exit(3)
    outd = "/tmp/evalseed_out_%s" % sid
    env = dict(os.environ, VERIF_REPO=wt, VERIF_OUT=outd)
    try:
        for c in run:
            pr = subprocess.run("python3 vcheck.py check %s" % c, shell=True, cwd=VERIF, capture_output=True, text=True, env=env)
            rc, out = pr.returncode, pr.stdout + pr.stderr
            viol = re.findall(r"^VIOLATION property=(\S+) replay=(\S+)", out, re.M)
            rec["checks"][c] = {"exit": rc, "violations": [os.path.basename(v[1]) for v in viol],
                                "undecided": re.findall(r"^  - (.*)", out, re.M)[:4] if rc == 2 else []}
            print(c, "exit", rc, [os.path.basename(v[1]) for v in viol][:4])
    finally:
        sh("git checkout -- . && git clean -fdq -- src tests", cwd=wt)
        import shutil
        shutil.rmtree(outd, ignore_errors=True)
    target = meta.get("property", "")[:3]
    rec["detected_by"] = [c for c, r in rec["checks"].items() if r["exit"] == 1]
    rec["undecided_in"] = [c for c, r in rec["checks"].items() if r["exit"] == 2]
    d = os.path.join(VERIF, "seeded", sid)
    os.makedirs(d, exist_ok=True)
    if skip and os.path.exists(os.path.join(d, "meta.json")):
        try:
            oldm = json.load(open(os.path.join(d, "meta.json")))
            rec["confirmation"] = oldm["what_we_ran"]["confirmation (in the sub-agent's scratch worktree)"]
            oldc = oldm["what_we_ran"].get("our checks with the patch applied to /repo (then reverted)", {})
            rec["first_run_checks"] = oldm["what_we_ran"].get("first run of our checks (before strengthening)", oldc)
        except Exception:
            pass
    open(os.path.join(d, "patch.diff"), "w").write(open(patch).read())
    open(os.path.join(d, "demo.diff"), "w").write(open(demo).read())
    json.dump({"breaks_property": meta.get("property"), "what_changed": meta.get("what_changed"),
               "why_it_breaks": meta.get("why_it_breaks"), "needs_to_manifest": meta.get("needs_to_manifest"),
               "how_demonstrated": meta.get("how_demonstrated"),
               "what_we_ran": {"confirmation (in the sub-agent's scratch worktree)": rec["confirmation"],
                               "first run of our checks (before strengthening)": rec.get("first_run_checks"),
                               "our checks with the patch applied to /repo (then reverted)": rec["checks"]},
               "detected_by": rec["detected_by"], "undecided_in": rec["undecided_in"]},
              open(os.path.join(d, "meta.json"), "w"), indent=1)
    print(json.dumps({"seed": sid, "confirmed": (rec["confirmation"] or {}).get("confirmed"), "detected_by": rec["detected_by"],
                      "undecided_in": rec["undecided_in"]}))


if __name__ == "__main__":
    main()
