"""Non-overlapping text edits with provenance, reversible."""


class EditError(Exception):
    pass


class Edit:
    __slots__ = ("start", "end", "new", "tag", "info")

    def __init__(self, start, end, new, tag, info=None):
        self.start, self.end, self.new, self.tag, self.info = start, end, new, tag, info

    def __repr__(self):
        return "Edit(%d,%d,%r,%s)" % (self.start, self.end, self.new[:30], self.tag)


def apply_edits(text, edits):
    """Apply edits (sorted, non-overlapping; several inserts at one point keep list order).
    Returns (new_text, segments) where segments is a list of
    (out_start, out_end, kind, payload): kind 'orig' payload=(in_start,in_end) ; kind 'edit' payload=Edit."""
    es = sorted(enumerate(edits), key=lambda p: (p[1].start, p[1].end, p[0]))
    out = []
    segs = []
    pos = 0
    opos = 0
    for _, e in es:
        if e.start < pos:
            raise EditError("overlapping edits near %d: %r" % (e.start, e))
        if e.start > pos:
            chunk = text[pos:e.start]
            out.append(chunk)
            segs.append((opos, opos + len(chunk), "orig", (pos, e.start)))
            opos += len(chunk)
        out.append(e.new)
        segs.append((opos, opos + len(e.new), "edit", e))
        opos += len(e.new)
        pos = e.end
    if pos < len(text):
        chunk = text[pos:]
        out.append(chunk)
        segs.append((opos, opos + len(chunk), "orig", (pos, len(text))))
    return "".join(out), segs


def revert(new_text, segs, old_text_of):
    """Rebuild the input text from the output and the segment list. `old_text_of(edit)` gives the
    text an edit replaced."""
    out = []
    for (a, b, kind, payload) in segs:
        if kind == "orig":
            out.append(new_text[a:b])
        else:
            if new_text[a:b] != payload.new:
                raise EditError("segment mismatch")
            out.append(old_text_of(payload))
    return "".join(out)
