"""Everything around the Verus units: bounded Kani stand-ins, pure lemmas, contract teeth, stand-in
audit, counterexample replay. Filled in unit by unit; every part reports into the evidence and can
only add `undecided` reasons or (for bounded Kani parts with a concrete failing input) violations."""
import json
import os
import subprocess
import time

GLOBAL_ASSUMPTIONS = [
    "composition across threads is a paper argument (DESIGN.md §6): Verus checks each function against its callees' contracts under a sequential semantics",
    "shared maps are read through one fixed abstract view for the duration of a call (DESIGN.md §3.1)",
    "atomics: rely/guarantee invariants contain only monotone single-location facts; the closed-world rule on protected fields is checked textually",
    "stand-in contracts of dependencies (revm, alloy-evm, dashmap, parking_lot, std) are assumed: see coverage.trusted_base",
    "machine integers: usize as in Verus' architecture-independent model; U256 as nat < 2^256 where a view is used",
    "termination of lock-free retry / helping loops is not claimed (exec_allows_no_decreases_clause spliced on them)",
    "extraction rewrites R1..R14 (DESIGN.md §4) preserve run-time behaviour; every exec-touching site is listed in coverage.exec_touching_rewrites",
]


def run_extras(prop, tier, units, results):
    return {"undecided": [], "violations": [], "bounded": [], "lemmas": [], "teeth": [], "audit": []}


def setup():
    return 0


def replay_counterexample(rp):
    print("(no executable replay harness registered for this obligation)")


def replay_other(rp):
    print(json.dumps(rp, indent=1))
    return 0
