"""Everything around the Verus units: pure lemmas, contract teeth, bounded Kani stand-ins, stand-in
audit, counterexample replay. Every part reports into the evidence; these parts can only add
`undecided` reasons or (Kani parts with a concrete failing input) violations — never proof counts."""
import concurrent.futures as cf
import glob
import json
import os
import re
import shutil
import subprocess
import time
import tomllib

from . import build as B
from . import verus as V

HERE = os.path.dirname(os.path.dirname(os.path.abspath(__file__)))
BUILD = os.path.join(os.environ.get("VERIF_OUT", HERE), "build")

GLOBAL_ASSUMPTIONS = [
    "composition across threads is a paper argument (DESIGN.md §6): Verus checks each function against its callees' contracts under a sequential semantics",
    "shared maps are read through one fixed abstract view for the duration of a call (DESIGN.md §3.1)",
    "atomics: rely/guarantee invariants contain only monotone single-location facts; the closed-world rule on protected fields is checked textually",
    "stand-in contracts of dependencies (revm, alloy-evm, dashmap, parking_lot, std) are assumed: see coverage.trusted_base",
    "machine integers: usize as in Verus' architecture-independent model; U256 as nat < 2^256 through its view",
    "termination of lock-free retry / helping / coordinator loops is not claimed (exec_allows_no_decreases_clause spliced on them)",
    "extraction rewrites R1..R29 (DESIGN.md §4) preserve run-time behaviour, except R29 (an `impl IntoIterator` argument is taken as the Vec of its items), R18 (a listed expression or closure body is replaced by an arbitrary value: abstraction, everything proved holds for every value) and R4 (listed logging/metrics/capacity statements dropped); every exec-touching site is listed in coverage.exec_touching_rewrites",
    "derive(Clone)/derive(PartialEq)/derive(Default) of extracted types are structural",
]

# pure Verus lemma files: (file, properties)
LEMMAS = [
    ("lemmas/L1_cursor_trace.rs", ["C15"]),
]

# bounded Kani parts: name -> (crate dir, harnesses, properties, bound text)
KANI = {
    "kani-u26": {"dir": "kani/u26", "props": ["C15"],
            "bound": "sequential (Kani has no threads); num_txs <= 4; unwind 6"},
    "kani-u22b": {"dir": "kani/u22b", "props": ["C13"],
             "bound": "account schedules of <= 3 transactions (thorough: 4), fully symbolic 256-bit costs; unwind 34 (U256 == is a 32-byte memcmp)"},
}


def run_lemmas(prop):
    out, undecided = [], []
    for rel, props in LEMMAS:
        if prop not in props:
            continue
        path = os.path.join(HERE, rel)
        if not os.path.exists(path):
            undecided.append("lemma file %s missing" % rel)
            continue
        dst = os.path.join(BUILD, prop, os.path.basename(rel))
        os.makedirs(os.path.dirname(dst), exist_ok=True)
        shutil.copyfile(path, dst)
        r = V.run_verus(dst)
        vr = (r.json or {}).get("verification-results", {})
        ok = bool(vr.get("success"))
        out.append({"lemma": rel, "verified": vr.get("verified"), "errors": vr.get("errors"), "ok": ok,
                    "wall_s": round(r.wall, 2)})
        if not ok:
            undecided.append("lemma %s does not verify (pure proof broke)" % rel)
    return out, undecided


# ------------------------------------------------------------------------------------------ teeth
def _teeth_for(unit):
    return unit.get("teeth", [])


def run_teeth(prop, units, run_part_results):
    """For every `[[teeth]]` entry of the units: mutate the extracted slice IN MEMORY (never /repo),
    rebuild, and require that the expected clause (or at least one obligation of the function) fails.
    A contract that survives its own mutation is weak => thorough run is undecided (exit 2)."""
    from vcheck import failure_tags   # late import (driver module)
    reports, undecided = [], []
    jobs = []
    for u in units:
        parts = u.get("part") or [None]
        for t in _teeth_for(u):
            if t.get("props") and prop not in t["props"]:
                continue
            fn = t["function"]
            part = None
            for pt in parts:
                if pt is None or fn in pt["bodies"]:
                    part = pt
                    break
            else:
                undecided.append("%s: teeth entry for %s: function is a body in no part" % (u["id"], fn))
                continue
            jobs.append((u, part, t))

    def one(job):
        u, part, t = job
        fn = t["function"]
        hit = {"n": 0}

        def mutate(fnpath, text):
            if fnpath != fn:
                return text
            if text.count(t["find"]) != 1:
                hit["n"] = -text.count(t["find"])
                return text
            hit["n"] = 1
            return text.replace(t["find"], t["replace"])

        name = "%s%s_teeth_%s" % (u["id"], ("_" + part["name"]) if part else "", re.sub(r"\W+", "_", t.get("name", fn))[:40])
        out = os.path.join(BUILD, prop, name + ".rs")
        rep = {"unit": u["id"], "function": fn, "name": t.get("name", ""), "find": t["find"][:80], "replace": t["replace"][:80]}
        try:
            b = B.build_unit(u["_dir"], out, mutate=mutate, bodies=set(part["bodies"]) if part else None)
        except B.Undecided as e:
            rep.update(result="build-failed", detail=str(e)[:300])
            return rep
        if hit["n"] != 1:
            rep.update(result="anchor-lost", detail="find string occurs %d times in the extracted slice" % abs(hit["n"]))
            return rep
        run = V.run_verus(b.path)
        fails, infra = V.classify(b, run)
        ids = []
        for f in fails:
            tags, named, oid = failure_tags(f, b)
            if oid:
                ids.append(oid)
        rep["failed_obligations"] = sorted(set(ids))
        exp = t.get("expect", [])
        if infra and not fails:
            rep.update(result="undecided", detail=infra[0][:300])
        elif exp and all(any(i == e or i.startswith(e) for i in ids) for e in exp):
            rep["result"] = "caught"
        elif not exp and ids:
            rep["result"] = "caught"
        elif ids:
            rep.update(result="caught-elsewhere", detail="expected %s" % exp)
        else:
            rep["result"] = "SURVIVED"
        return rep

    with cf.ThreadPoolExecutor(max_workers=int(os.environ.get("VERIF_JOBS", "16"))) as ex:
        for rep in ex.map(one, jobs):
            reports.append(rep)
            if rep["result"] in ("SURVIVED", "anchor-lost", "build-failed", "undecided"):
                undecided.append("%s: teeth `%s` on %s: %s %s" % (rep["unit"], rep["name"], rep["function"], rep["result"], rep.get("detail", "")))
    return reports, undecided


# ------------------------------------------------------------------------------------------ Kani
def _kani_env():
    env = dict(os.environ)
    env["CARGO_NET_OFFLINE"] = "true"
    return env


def run_kani(prop, tier):
    """bounded stand-ins (labelled bounded; never counted as discharged proof obligations)"""
    out, undecided, violations = [], [], []
    for name, k in KANI.items():
        if prop not in k["props"]:
            continue
        d = os.path.join(HERE, k["dir"])
        runner = os.path.join(d, "run.py")
        if not os.path.exists(runner):
            out.append({"part": name, "status": "not built in this tree", "bound": k["bound"]})
            continue
        if tier != "thorough":
            out.append({"part": name, "status": "skipped in quick tier (thorough only)", "bound": k["bound"]})
            continue
        t0 = time.time()
        try:
            pr = subprocess.run(["python3", runner, tier], capture_output=True, text=True, timeout=3600, env=_kani_env(), cwd=d)
            try:
                rep = json.loads(pr.stdout[pr.stdout.index("{"):])
            except Exception:
                rep = {"status": "error", "detail": (pr.stdout + pr.stderr)[-600:]}
        except subprocess.TimeoutExpired:
            rep = {"status": "timeout"}
        rep.update(part=name, bound=k["bound"], wall_s=round(time.time() - t0, 1), level="bounded")
        out.append(rep)
        if rep.get("status") == "failed":
            for h in rep.get("failed_harnesses", []):
                violations.append({"unit": name, "obligation": "%s.%s" % (name, h["harness"]), "tags": k["props"],
                                   "verifier": "kani (bounded)", "failure": {"kind": "kani", "message": h.get("message", ""),
                                                                            "rendered": h.get("detail", "")[-1500:]},
                                   "counterexample": h.get("counterexample")})
        elif rep.get("status") not in ("ok",):
            undecided.append("bounded part %s: %s %s" % (name, rep.get("status"), rep.get("detail", "")[:200]))
    return out, undecided, violations


# ------------------------------------------------------------------------------------------ audit
def run_audit(prop, tier):
    d = os.path.join(HERE, "audit")
    runner = os.path.join(d, "run.py")
    if tier != "thorough" or not os.path.exists(runner):
        return [], []
    try:
        pr = subprocess.run(["python3", runner, prop], capture_output=True, text=True, timeout=1800, env=_kani_env(), cwd=d)
        rep = json.loads(pr.stdout[pr.stdout.index("{"):])
    except Exception as e:
        return [{"status": "error", "detail": str(e)[:200]}], ["stand-in audit could not run: %s" % str(e)[:200]]
    und = []
    if rep.get("status") != "ok":
        und.append("stand-in audit: %s" % rep.get("detail", rep.get("status")))
    return [rep], und


def run_extras(prop, tier, units, results):
    res = {"undecided": [], "violations": [], "bounded": [], "lemmas": [], "teeth": [], "audit": []}
    lem, und = run_lemmas(prop)
    res["lemmas"] = lem
    res["undecided"] += und
    bounded, und, viol = run_kani(prop, tier)
    res["bounded"] = bounded
    res["undecided"] += und
    res["violations"] += viol
    if tier == "thorough":
        teeth, und = run_teeth(prop, units, results)
        res["teeth"] = teeth
        res["undecided"] += und
        aud, und = run_audit(prop, tier)
        res["audit"] = aud
        res["undecided"] += und
    return res


def setup():
    rc = 0
    for name, k in KANI.items():
        runner = os.path.join(HERE, k["dir"], "run.py")
        if os.path.exists(runner):
            pr = subprocess.run(["python3", runner, "setup"], capture_output=True, text=True, env=_kani_env(), cwd=os.path.dirname(runner))
            print("kani %s setup: rc=%d %s" % (name, pr.returncode, pr.stdout.strip()[-200:]))
    return rc


def replay_counterexample(rp):
    print("(no executable replay harness registered for this obligation)")


def replay_other(rp):
    print(json.dumps(rp, indent=1)[:4000])
    return 0
