"""Unit builder: locate items in the real sources, rewrite, splice contracts, assemble one Verus file."""
import hashlib
import json
import os
import re
import tomllib

from . import rustlex as rl
from .edits import Edit, apply_edits, revert
from .rewrites import apply_rewrites, check_reversible, Unsupported, EXEC_TOUCHING, unfold_combinator
import copy
from .splice import parse_clauses, splice_fn, FnShape, AnchorLost, ClauseError, Clause

VERIF = os.path.dirname(os.path.dirname(os.path.abspath(__file__)))
REPO = os.environ.get("VERIF_REPO", "/repo")


class Undecided(Exception):
    """infrastructure / lost anchor / unsupported: exit 2, never an alarm"""


def registry_root(crate):
    """registry:<crate> -> directory of the version pinned in /repo/Cargo.lock"""
    lock = open(os.path.join(REPO, "Cargo.lock")).read()
    vers = re.findall(r'name = "%s"\nversion = "([^"]+)"' % re.escape(crate), lock)
    if not vers:
        raise Undecided("crate %s not in Cargo.lock" % crate)
    home = os.environ.get("CARGO_HOME", os.path.expanduser("~/.cargo"))
    base = os.path.join(home, "registry", "src")
    for v in vers:
        for d in sorted(os.listdir(base)):
            p = os.path.join(base, d, "%s-%s" % (crate, v))
            if os.path.isdir(p):
                return p, v
    raise Undecided("source of %s %s not in cargo registry" % (crate, vers))


def resolve_source(spec):
    if spec.startswith("repo:"):
        return os.path.join(REPO, spec[5:]), spec
    if spec.startswith("registry:"):
        _, crate, rel = spec.split(":", 2)
        root, v = registry_root(crate)
        return os.path.join(root, rel), "registry:%s-%s:%s" % (crate, v, rel)
    raise Undecided("bad source spec %r" % spec)


class SourceFile:
    cache = {}

    def __init__(self, path):
        self.path = path
        try:
            self.src = open(path).read()
        except OSError as e:
            raise Undecided("cannot read %s: %s" % (path, e))
        try:
            self.m = rl.mask(self.src)
            self.items = rl.top_level_items(self.src, self.m, 0, len(self.src))
        except rl.ScanError as e:
            raise Undecided("cannot scan %s: %s" % (path, e))

    @classmethod
    def get(cls, path):
        if path not in cls.cache:
            cls.cache[path] = SourceFile(path)
        return cls.cache[path]

    def non_test_items(self):
        out = []
        for it in self.items:
            pre = self.m[it.start:it.kw]
            if re.search(r"#\s*\[\s*cfg\s*\(\s*test\s*\)\s*\]", pre):
                continue
            out.append(it)
        return out

    def find(self, kind, name):
        res = [it for it in self.non_test_items() if it.kind == kind and it.name == name]
        return res

    def impls(self, ty, trait=None):
        return [it for it in self.non_test_items() if it.kind == "impl" and it.impl_of == ty and it.impl_trait == trait]

    def methods(self, impl_item):
        out = []
        for it in rl.children(self.src, self.m, impl_item):
            pre = self.m[it.start:it.kw]
            if re.search(r"#\s*\[\s*cfg\s*\(\s*test\s*\)\s*\]", pre):
                continue
            out.append(it)
        return out


class Piece:
    """one extracted slice (an item, an impl header, or a closing brace)"""

    def __init__(self, label, fnpath, srcspec, path, start, end, orig):
        self.label = label          # e.g. "fn claim_before", "method RewindableCursor::rewind"
        self.fnpath = fnpath        # path used by @fn in clauses ("Type::name") or None
        self.srcspec, self.path, self.start, self.end = srcspec, path, start, end
        self.orig = orig
        self.sha = hashlib.sha256(orig.encode()).hexdigest() if orig is not None else None
        self.t1 = None
        self.t2 = None
        self.rw_steps = []
        self.rw_log = []
        self.segs2 = []
        self.out_start = None       # byte offset of t2 in the generated file
        self.indent = ""
        self.synthetic = False
        self.fnspec = None
        self.is_fn = False
        self.has_body = False
        self.src_line = None


def load_unit(unit_dir):
    with open(os.path.join(unit_dir, "unit.toml"), "rb") as f:
        u = tomllib.load(f)
    u["_dir"] = unit_dir
    return u


def _dedent_method(text, indent):
    return text


class BuiltUnit:
    pass


SCAFFOLD_KINDS = ("loop_invariant", "loop_ensures", "loop_decreases", "loop_bind", "loopstart", "loopend", "start",
                  "requires", "closure_ptype", "closure_sig", "attr", "result")


def _is_scaffold(c):
    """a clause other obligations of the same function may rest on: loop invariants, ghost declarations, closure
    annotations, preconditions — and every untagged helper. (Tagged before/after/tail/ensures clauses are obligations.)"""
    return c.kind in SCAFFOLD_KINDS or not c.tags


def _rename_in(text, mapping):
    for old, new in mapping.items():
        text = re.sub(r"(?<![A-Za-z0-9_])%s(?![A-Za-z0-9_])" % re.escape(old), new, text)
    return text


def build_unit(unit_dir, out_path, mutate=None, neg_control=False, bodies=None, drop_clauses=None, extra_items=None, unfold=None, renames=None):
    """Generate the Verus file for a unit. `mutate` = optional function (fnpath, text) -> text applied
    to the *extracted slice in memory* (teeth); `neg_control` appends `ensures false` everywhere.
    Returns BuiltUnit with maps for diagnostics."""
    u = load_unit(unit_dir)
    uid = u["id"]
    default_src = u.get("source")
    rewrites = set(u.get("rewrites", ["R1", "R2"]))
    cl_path = os.path.join(unit_dir, "clauses.txt")
    fnspecs = []
    if os.path.exists(cl_path):
        try:
            fnspecs = parse_clauses(open(cl_path).read(), uid)
        except ClauseError as e:
            raise Undecided("%s: clauses.txt: %s" % (uid, e))
    spec_by_path = {}
    for fs in fnspecs:
        if fs.path in spec_by_path:
            raise Undecided("%s: duplicate @fn %s" % (uid, fs.path))
        spec_by_path[fs.path] = fs

    pieces = []
    last_flag = False
    item_list = []
    def _includes(unit, acc):
        for inc in unit.get("include", []):
            iu = load_unit(os.path.join(os.path.dirname(unit_dir.rstrip("/")), inc))
            if iu["id"] in [x["id"] for x in acc]:
                continue
            _includes(iu, acc)
            if iu["id"] not in [x["id"] for x in acc]:
                acc.append(iu)
        return acc
    for iu in _includes(u, []):
        inc = iu["id"]
        icl = os.path.join(iu["_dir"], "clauses.txt")
        if os.path.exists(icl):
            try:
                ispecs = parse_clauses(open(icl).read(), iu["id"])
            except ClauseError as e:
                raise Undecided("%s: clauses.txt: %s" % (iu["id"], e))
            for fs in ispecs:
                if not fs.props:
                    fs.props = iu.get("properties", [])
                if fs.path in spec_by_path:
                    raise Undecided("%s: duplicate @fn %s (include %s)" % (uid, fs.path, inc))
                spec_by_path[fs.path] = fs
            fnspecs = fnspecs + ispecs
        for item in iu.get("item", []):
            item_list.append((item, iu.get("source"), set(iu.get("rewrites", ["R1", "R2"])), True))
    for item in u.get("item", []):
        item_list.append((item, default_src, rewrites, False))
    for item in (extra_items or []):
        item_list.append((item, item.get("source", default_src), rewrites, False))
    for item, default_src, rewrites, inc_flag in item_list:
        for p_ in pieces:
            if not hasattr(p_, "included"):
                p_.included = last_flag
        last_flag = inc_flag
        srcspec = item.get("source", default_src)
        path, shown = resolve_source(srcspec)
        sf = SourceFile.get(path)
        kind = item["kind"]
        side = item.get("side", "")     # suffix for @fn paths when two sources define the same name
        opts = {"stub_only": item.get("stub_only", False),
                "rewrites": set(item.get("rewrites", rewrites)) | set(item.get("rewrites_add", [])),
                "r4_statements": item.get("r4_statements", ()),
                "r10_only": item.get("r10_only"), "r13_idents": item.get("r13_idents", ()), "r16_only": item.get("r16_only"), "abstract_lets": item.get("abstract_lets", ()), "r22_map_sources": item.get("r22_map_sources", ()), "for_map_idents": item.get("for_map_idents", ()), "abstract_closure_bodies": item.get("abstract_closure_bodies", ()), "extend_vec_idents": item.get("extend_vec_idents", ()),
                "drop_derives": item.get("drop_derives", ())}
        if kind in ("fn", "struct", "enum", "trait", "type", "const", "static"):
            found = sf.find(kind, item["name"])
            if len(found) != 1:
                raise Undecided("%s: %s %s: %d matches in %s" % (uid, kind, item["name"], len(found), shown))
            it = found[0]
            p = Piece("%s %s" % (kind, item["name"]), (item["name"] + side) if kind in ("fn", "trait", "struct", "enum") else None,
                      shown, path, it.start, it.end, sf.src[it.start:it.end])
            p.kind = kind
            p.opts = opts
            p.is_fn = kind == "fn"
            p.src_line = sf.src.count("\n", 0, it.start) + 1
            if kind == "trait":
                # trait methods get @fn Trait::name specs; handled by splitting below
                pieces.extend(_split_container(sf, it, p, item["name"] + side, opts, shown, path))
            else:
                pieces.append(p)
        elif kind == "methods":
            ty = item["impl"]
            trait = item.get("trait")
            blocks = sf.impls(ty, trait)
            if not blocks:
                raise Undecided("%s: no impl %s%s in %s" % (uid, (trait + " for ") if trait else "", ty, shown))
            wanted = list(item["names"])
            for blk in blocks:
                ms = [mth for mth in sf.methods(blk) if mth.kind in ("fn", "const", "type") and mth.name in wanted]
                if not ms:
                    continue
                hdr = Piece("impl %s header" % ty, ("impl %s for %s" % (trait, ty) if trait else "impl " + ty) + side, shown, path, blk.start, blk.body_open + 1,
                            sf.src[blk.start:blk.body_open + 1])
                hdr.kind = "impl_header"
                hdr.opts = dict(opts, rewrites=(opts["rewrites"] & {"R1", "R2"}) | ({"R1"} if "R1p" in opts["rewrites"] else set()))
                pieces.append(hdr)
                for mth in ms:
                    wanted.remove(mth.name) if mth.name in wanted else None
                    fnpath = ("<%s as %s>::%s" % (ty, trait, mth.name)) if trait else "%s::%s" % (ty, mth.name)
                    p = Piece("method " + fnpath, fnpath + side, shown, path, mth.start, mth.end, sf.src[mth.start:mth.end])
                    p.kind = "fn" if mth.kind == "fn" else "assoc"
                    p.opts = opts if not (trait and "R1p" in opts["rewrites"]) else dict(opts, rewrites=(opts["rewrites"] - {"R1p"}) | {"R1"})
                    p.is_fn = mth.kind == "fn"
                    p.indent = "    "
                    p.src_line = sf.src.count("\n", 0, mth.start) + 1
                    pieces.append(p)
                close = Piece("impl %s end" % ty, None, shown, path, blk.end - 1, blk.end, "}")
                close.kind = "impl_close"
                close.opts = dict(opts, rewrites=set())
                pieces.append(close)
            if wanted:
                raise Undecided("%s: methods %s of %s not found in %s" % (uid, wanted, ty, shown))
        else:
            raise Undecided("%s: unknown item kind %s" % (uid, kind))

    for p_ in pieces:
        if not hasattr(p_, "included"):
            p_.included = last_flag
    # rewrites + splices
    used_specs = set()
    clause_index = {}
    for p in pieces:
        text = p.orig
        p.stub = False
        if p.kind == "fn" and ((bodies is not None and p.fnpath not in bodies) or p.opts.get("stub_only")):
            # contract-only stub: signature + header clauses, body dropped (trusted inside this part;
            # the body is verified by the part that lists it)
            try:
                sh0 = FnShape(text)
            except (AnchorLost, rl.ScanError, Unsupported) as e:
                raise Undecided("%s: %s: %s" % (uid, p.label, e))
            if sh0.has_body:
                text = text[:sh0.header_end] + "{ unimplemented!() }"
                p.stub = True
                p.stub_of = p.orig
        if mutate is not None and p.is_fn and not p.stub:
            text = mutate(p.fnpath, text)
            p.mutated = text != p.orig
        if renames and p.fnpath in renames and not p.stub:
            mp_ = renames[p.fnpath]
            o2 = dict(p.opts)
            for key in ("abstract_lets", "r13_idents", "extend_vec_idents", "r22_map_sources", "for_map_idents"):
                if o2.get(key):
                    o2[key] = [mp_.get(x, x) for x in o2[key]]
            p.opts = o2
        try:
            t1, steps, log = apply_rewrites(text, p.opts["rewrites"], p.opts)
        except (Unsupported, rl.ScanError) as e:
            raise Undecided("%s: %s: rewrite: %s" % (uid, p.label, e))
        removed_closures = []
        if unfold and p.is_fn and not p.stub and p.fnpath in unfold:
            # repair only (R21): unfold the combinators whose closure Verus rejected, back to front so that the
            # reported offsets (positions in the previous build's rewritten text) stay valid
            for off, variant in sorted(unfold[p.fnpath], reverse=True):
                try:
                    ueds, bar = unfold_combinator(t1, off, variant)
                    shu = FnShape(t1)
                    k = [c["open"] for c in shu.closures].index(bar) + 1 if bar in [c["open"] for c in shu.closures] else None
                except (Unsupported, rl.ScanError, AnchorLost, ValueError) as e:
                    raise Undecided("%s: %s: rewrite: %s" % (uid, p.label, e))
                new_t, segs_u = apply_edits(t1, ueds)
                lo_, hi_ = min(e.start for e in ueds), max(e.end for e in ueds)
                log.append({"rewrite": "R21", "before": t1[lo_:hi_][:400],
                            "edits": [{"at": e.start, "del": t1[e.start:e.end], "ins": e.new} for e in ueds]})
                steps.append(("R21", t1, segs_u, new_t))
                t1 = new_t
                if k is not None:
                    removed_closures.append(k)
        if not check_reversible(text, t1, steps):
            raise Undecided("%s: %s: rewrite reversal self-check failed" % (uid, p.label))
        p.t1, p.rw_steps, p.rw_log = t1, steps, log
        eds = []
        fs = spec_by_path.get(p.fnpath) if p.fnpath else None
        if fs is not None and removed_closures:
            # the unfolded closure is gone: its annotations are lost, later closures move up
            fs = copy.copy(fs)
            cl2, gone = [], []
            for c in fs.clauses:
                if c.kind in ("closure_ptype", "closure_sig"):
                    n = c.args["n"]
                    if n in removed_closures:
                        gone.append(c)
                        continue
                    sh_ = sum(1 for k in removed_closures if k < n)
                    if sh_:
                        c = copy.copy(c)
                        c.args = dict(c.args, n=n - sh_)
                cl2.append(c)
            fs.clauses = cl2
            p.unfolded_clauses = [(c.full_id, c.tags) for c in gone if c.kind == "closure_sig"]
        if p.kind in ("fn", "trait_fn"):
            try:
                sh = FnShape(t1)
            except (AnchorLost, rl.ScanError, Unsupported) as e:
                raise Undecided("%s: %s: %s" % (uid, p.label, e))
            p.has_body = sh.has_body and not p.stub
            p.shape = sh
        if p.stub:
            used_specs.add(p.fnpath) if fs is not None else None
            p.fnspec = fs
            p.kind = "stub"
            hdr_kinds = ("attr", "result", "requires", "ensures", "recommends")
            sfs = copy.copy(fs) if fs is not None else None
            from .splice import FnSpec as _FnSpec
            if sfs is None:
                sfs = _FnSpec(p.fnpath)
            # `summary` = assumed summary of an interior-mutable (&self) effect: an `ensures` of the stub only
            summ = []
            for c in sfs.clauses:
                if c.kind == "summary":
                    c2 = copy.copy(c)
                    c2.kind = "ensures"
                    summ.append(c2)
            sfs.clauses = [c for c in sfs.clauses if c.kind in hdr_kinds and not (c.kind == "attr" and "exec_allows_no_decreases" in c.text)] + summ
            ext = Clause("attr", "_stub", [], "#[verifier::external_body]", {}, 0)
            ext.full_id = None
            sfs.clauses = [ext] + sfs.clauses
            fs = sfs
        if fs is not None and renames and p.fnpath in renames and not p.stub:
            # alpha-renaming repair: the function differs from its pinned text only by a consistent renaming of local
            # identifiers, so the same renaming is applied to the clause texts and anchors of this function
            mp = renames[p.fnpath]
            fs = copy.copy(fs)
            ncl = []
            for c in fs.clauses:
                c2 = copy.copy(c)
                c2.text = _rename_in(c.text, mp)
                if c.args.get("tok"):
                    c2.args = dict(c.args, tok=_rename_in(c.args["tok"], mp))
                ncl.append(c2)
            fs.clauses = ncl
            p.renamed = dict(mp)
        if fs is not None and drop_clauses:
            kept = [c for c in fs.clauses if c.full_id not in drop_clauses]
            if len(kept) != len(fs.clauses):
                dropped = [c for c in fs.clauses if c.full_id in drop_clauses]
                fs = copy.copy(fs)
                fs.clauses = kept
                p.dropped_clauses = [(c.full_id, c.tags) for c in dropped]
                p.scaffold_lost = getattr(p, 'scaffold_lost', []) + [{'id': c.full_id or c.cid, 'kind': c.kind, 'text': c.text} for c in dropped if _is_scaffold(c)]
        if fs is not None:
            used_specs.add(fs.path)
            if not p.stub:
                p.fnspec = fs
            if neg_control and p.kind == "fn" and p.has_body and (neg_control is True or p.fnpath in neg_control):
                fs = copy.copy(fs)
                neg = Clause("ensures", "_NEG", [], "false", {}, 0)
                neg.full_id = "%s.%s._NEG" % (uid, p.fnpath.split("::")[-1])
                fs.clauses = list(fs.clauses) + [neg]
                p.neg = neg
            try:
                if p.kind in ("fn", "trait_fn", "stub"):
                    eds, sh2 = splice_fn(t1, fs)
                    p.lost_clauses = [(c.full_id, c.tags, msg) for (c, msg) in getattr(sh2, "lost", [])]
                    p.anchor_lost = [c.full_id or c.cid for (c, msg) in getattr(sh2, 'lost', [])]
                    p.scaffold_lost = getattr(p, 'scaffold_lost', []) + [{'id': c.full_id or c.cid, 'kind': c.kind, 'text': c.text} for (c, msg) in getattr(sh2, 'lost', []) if _is_scaffold(c)]
                else:
                    for c in fs.clauses:
                        if c.kind == "attr":
                            eds.append(Edit(0, 0, c.text + "\n", "S", c))
                        elif c.kind == "start" and p.kind in ("trait_header", "impl_header"):
                            eds.append(Edit(len(t1), len(t1), "\n    " + c.text, "S", c))
                        else:
                            raise Undecided("%s: directive %s not allowed on %s" % (uid, c.kind, p.label))
            except (AnchorLost, rl.ScanError, Unsupported) as e:
                raise Undecided("%s: %s: anchor: %s" % (uid, p.label, e))
        try:
            t2, segs = apply_edits(t1, eds)
        except Exception as e:
            raise Undecided("%s: %s: splice: %s" % (uid, p.label, e))
        # insert-only self check
        if revert(t2, segs, lambda e: "") != t1:
            raise Undecided("%s: %s: splice is not insert-only" % (uid, p.label))
        for e in eds:
            if e.start != e.end:
                raise Undecided("%s: %s: splice is not insert-only" % (uid, p.label))
        p.t2, p.segs2 = t2, segs
    for item, _d, _r, _f in item_list:
        for tok in item.get("r4_statements", ()):
            if bodies is not None and not any(tok in (getattr(p, "orig", "") or "") for p in pieces if p.kind == "fn"):
                continue        # the function holding the statement is a stub in this part
            if not any(tok in ed["del"] for p in pieces for lg in p.rw_log if lg["rewrite"] == "R4" for ed in lg["edits"]):
                raise Undecided("%s: R4: listed statement %r not found" % (uid, tok))
    missing = set(spec_by_path) - used_specs
    if missing:
        raise Undecided("%s: clauses for items that were not extracted: %s" % (uid, sorted(missing)))

    # assemble
    prelude_names = u.get("prelude", ["prelude.rs"])
    pre_text = ""
    for pn in prelude_names:
        if pn.startswith("_shared/"):
            pp = os.path.join(VERIF, "contracts", pn)
        elif pn.startswith("@"):
            pp = os.path.join(VERIF, "contracts", pn[1:], "prelude.rs")
        else:
            pp = os.path.join(unit_dir, pn)
        pre_text += open(pp).read()
        if not pre_text.endswith("\n"):
            pre_text += "\n"
    marker = "//@EXTRACTED@"
    if pre_text.count(marker) != 1:
        raise Undecided("%s: prelude must contain exactly one %s line" % (uid, marker))
    head, tail = pre_text.split(marker)
    out = [head]
    pos = len(head)
    for p in pieces:
        banner = ""
        if p.kind not in ("impl_close",) and p.orig is not None and p.kind != "trait_close":
            banner = "// ==== extracted %s  <- %s @%s..%s sha256:%s\n" % (
                p.label, p.srcspec, p.start, p.end, p.sha[:16])
        out.append(banner)
        pos += len(banner)
        lead = p.indent if p.kind in ("fn", "trait_fn", "stub") and p.indent else ""
        out.append(lead)
        pos += len(lead)
        p.out_start = pos
        out.append(p.t2)
        pos += len(p.t2)
        out.append("\n")
        pos += 1
    out.append(tail)
    text = "".join(out)
    os.makedirs(os.path.dirname(out_path), exist_ok=True)
    with open(out_path, "w") as f:
        f.write(text)

    b = BuiltUnit()
    b.unit = u
    b.uid = uid
    b.path = out_path
    b.text = text
    b.pieces = pieces
    b.fnspecs = fnspecs
    b.head_len = len(head)
    b.tail_start = pos
    b.prelude_ids = _prelude_ids(text, b)
    return b


def _split_container(sf, it, whole, cname, opts, shown, path):
    """A trait declaration is emitted as header + each method (so that @fn Trait::m can splice) + `}`."""
    kids = rl.children(sf.src, sf.m, it)
    pieces = []
    hdr = Piece("trait %s header" % cname, "trait " + cname, shown, path, it.start, it.body_open + 1, sf.src[it.start:it.body_open + 1])
    hdr.kind = "trait_header"
    hdr.opts = dict(opts, rewrites=opts["rewrites"] & {"R1", "R2"})
    pieces.append(hdr)
    prev = it.body_open + 1
    for k in kids:
        # anything between children (assoc types etc. are children too)
        p = Piece("trait item %s::%s" % (cname, k.name), "%s::%s" % (cname, k.name) if k.kind == "fn" else None,
                  shown, path, k.start, k.end, sf.src[k.start:k.end])
        p.kind = "trait_fn" if k.kind == "fn" else "trait_other"
        p.opts = opts
        p.is_fn = k.kind == "fn"
        p.indent = "    "
        p.src_line = sf.src.count("\n", 0, k.start) + 1
        pieces.append(p)
    close = Piece("trait %s end" % cname, None, shown, path, it.end - 1, it.end, "}")
    close.kind = "trait_close"
    close.opts = dict(opts, rewrites=set())
    pieces.append(close)
    return pieces


_ID_RX = re.compile(r"//@ID\s+([A-Za-z0-9_.]+)\s*(?::\s*([A-Z0-9 ]+))?")


def _prelude_ids(text, b):
    """lines of the generated file carrying `//@ID name : tags` markers (prelude obligations)."""
    ids = {}
    off = 0
    for ln, line in enumerate(text.split("\n"), 1):
        mt = _ID_RX.search(line)
        if mt:
            ids[ln] = (b.uid + "." + mt.group(1), (mt.group(2) or "").split())
        off += len(line) + 1
    return ids


def locate(b, byte_off):
    """Map a byte offset of the generated file to ('clause', Clause, piece) | ('code', piece, orig_off)
    | ('prelude', line) | ('negctl', piece)."""
    for p in b.pieces:
        if p.out_start is None:
            continue
        if p.out_start <= byte_off < p.out_start + len(p.t2):
            rel = byte_off - p.out_start
            for (a, e, kind, payload) in p.segs2:
                if a <= rel < e:
                    if kind == "edit":
                        return ("clause", payload.info, p)
                    return ("code", p, payload[0] + (rel - a))
            return ("code", p, rel)
    line = b.text.count("\n", 0, byte_off) + 1
    return ("prelude", line)
