"""Minimal Rust surface scanner: masks comments/strings/chars, matches brackets, finds items.

No third-party dependencies. Works on rustfmt-formatted source but does not depend on indentation;
all structure is derived from bracket depth in the masked text.
"""
import re


class ScanError(Exception):
    pass


def mask(src: str) -> str:
    """Return a string of the same length in which the *contents* of comments, string literals
    and char literals are replaced by spaces (newlines kept). Delimiting quotes are replaced by
    spaces too, so the result contains only code tokens; brackets inside literals disappear."""
    out = list(src)
    i, n = 0, len(src)

    def blank(a, b):
        for k in range(a, b):
            if out[k] != "\n":
                out[k] = " "

    while i < n:
        c = src[i]
        if c == "/" and i + 1 < n and src[i + 1] == "/":
            j = src.find("\n", i)
            j = n if j < 0 else j
            blank(i, j)
            i = j
        elif c == "/" and i + 1 < n and src[i + 1] == "*":
            depth, j = 1, i + 2
            while j < n and depth:
                if src.startswith("/*", j):
                    depth += 1
                    j += 2
                elif src.startswith("*/", j):
                    depth -= 1
                    j += 2
                else:
                    j += 1
            blank(i, j)
            i = j
        elif c == '"' or (c in "br" and _string_start(src, i)):
            j = _string_end(src, i)
            # keep a 1-char placeholder so that `"x"` still looks like an operand
            blank(i, j)
            out[i] = '"'
            out[j - 1] = '"'
            i = j
        elif c == "'":
            j = _char_or_lifetime_end(src, i)
            if j is None:  # lifetime: keep as is
                i += 1
            else:
                blank(i, j)
                out[i] = "'"
                out[j - 1] = "'"
                i = j
        else:
            i += 1
    return "".join(out)


def _string_start(src, i):
    # b"..", r"..", r#".."#, br"..", br#".."#  (identifier chars before => not a literal prefix)
    if i > 0 and (src[i - 1].isalnum() or src[i - 1] == "_"):
        return False
    m = re.match(r'(b?r#*"|b")', src[i:i + 12])
    return bool(m)


def _string_end(src, i):
    m = re.match(r'(b?)(r?)(#*)"', src[i:i + 40])
    if not m:
        raise ScanError("bad string start at %d" % i)
    raw, hashes = m.group(2) == "r", m.group(3)
    j = i + m.end()
    n = len(src)
    if raw:
        term = '"' + hashes
        k = src.find(term, j)
        if k < 0:
            raise ScanError("unterminated raw string at %d" % i)
        return k + len(term)
    while j < n:
        if src[j] == "\\":
            j += 2
        elif src[j] == '"':
            return j + 1
        else:
            j += 1
    raise ScanError("unterminated string at %d" % i)


def _char_or_lifetime_end(src, i):
    """src[i] == "'". Return end index of a char literal, or None if this is a lifetime/label."""
    n = len(src)
    if i + 1 >= n:
        return None
    if src[i + 1] == "\\":
        j = i + 2
        while j < n and src[j] != "'":
            j += 1
        return j + 1
    # 'x' (any single char, possibly multibyte) followed by '
    if i + 2 < n and src[i + 2] == "'":
        return i + 3
    return None


OPEN = {"{": "}", "(": ")", "[": "]"}
CLOSE = {v: k for k, v in OPEN.items()}


def match_close(m: str, i: int) -> int:
    """m masked; m[i] is an opening bracket. Return index of its matching closer."""
    stack = []
    n = len(m)
    j = i
    while j < n:
        c = m[j]
        if c in OPEN:
            stack.append(c)
        elif c in CLOSE:
            if not stack or stack[-1] != CLOSE[c]:
                raise ScanError("unbalanced %r at %d" % (c, j))
            stack.pop()
            if not stack:
                return j
        j += 1
    raise ScanError("no closer for %r at %d" % (m[i], i))


def match_open(m: str, j: int) -> int:
    """m masked; m[j] is a closing bracket. Return index of its matching opener."""
    stack = []
    i = j
    while i >= 0:
        c = m[i]
        if c in CLOSE:
            stack.append(c)
        elif c in OPEN:
            if not stack or stack[-1] != OPEN[c]:
                raise ScanError("unbalanced %r at %d" % (c, i))
            stack.pop()
            if not stack:
                return i
        i -= 1
    raise ScanError("no opener for %r at %d" % (m[j], j))


def match_angle(m: str, i: int) -> int:
    """m[i] == '<' opening a generics list. Return index of matching '>' (skips '->' and '=>')."""
    depth = 0
    j = i
    n = len(m)
    while j < n:
        c = m[j]
        if c in "([{":
            j = match_close(m, j)
        elif c == "<":
            depth += 1
        elif c == ">" and m[j - 1] not in "-=":
            depth -= 1
            if depth == 0:
                return j
        j += 1
    raise ScanError("no closer for '<' at %d" % i)


def depth_at(m: str, start: int, end: int) -> int:
    """Brace depth change between start and end (only {} counted)."""
    d = 0
    for c in m[start:end]:
        if c == "{":
            d += 1
        elif c == "}":
            d -= 1
    return d


def skip_ws_back(m: str, i: int) -> int:
    """Largest index j < i with m[j] not whitespace, or -1."""
    j = i - 1
    while j >= 0 and m[j].isspace():
        j -= 1
    return j


def skip_ws(m: str, i: int) -> int:
    n = len(m)
    while i < n and m[i].isspace():
        i += 1
    return i


def attrs_start(m: str, pos: int) -> int:
    """Extend pos backwards over outer attributes `#[...]` (comments are whitespace in m)."""
    while True:
        j = skip_ws_back(m, pos)
        if j >= 0 and m[j] == "]":
            k = match_open(m, j)
            if k >= 1 and m[k - 1] == "#":
                pos = k - 1
                continue
        return pos


_ITEM_KW = r"(?:fn|struct|enum|trait|impl|type|const|static|mod|use|union)"
_QUAL = r"(?:pub(?:\s*\([^)]*\))?\s+)?(?:default\s+)?(?:const\s+)?(?:async\s+)?(?:unsafe\s+)?(?:extern\s+\"[^\"]*\"\s+)?"


class Item:
    __slots__ = ("kind", "name", "start", "kw", "body_open", "end", "header_end", "impl_of", "impl_trait", "parent")

    def __repr__(self):
        return "Item(%s %s [%d,%d))" % (self.kind, self.name, self.start, self.end)


def top_level_items(src: str, m: str, lo: int, hi: int, parent=None):
    """Enumerate items whose keyword sits at brace depth 0 relative to [lo,hi)."""
    items = []
    i = lo
    rx = re.compile(r"\b" + _QUAL + r"(" + _ITEM_KW + r")\b")
    while i < hi:
        c = m[i]
        if c in OPEN:
            i = match_close(m, i) + 1
            continue
        mt = rx.match(m, i) if (c.isalpha() and (i == 0 or not (m[i - 1].isalnum() or m[i - 1] == "_"))) else None
        if not mt:
            i += 1
            continue
        kind = mt.group(1)
        # `const` as qualifier of fn is inside _QUAL; a bare `const NAME` item: kind == const
        it = Item()
        it.parent = parent
        it.kind = kind
        it.kw = mt.start(1)
        it.start = attrs_start(m, mt.start())
        it.impl_of = it.impl_trait = None
        j = mt.end(1)
        if kind == "impl":
            j = skip_ws(m, j)
            if m[j] == "<":
                j = match_angle(m, j) + 1
            # header up to '{'
            k = j
            while m[k] != "{":
                if m[k] in "([":
                    k = match_close(m, k)
                k += 1
            header = m[j:k]
            hw = re.split(r"\bwhere\b", header)[0]
            parts = re.split(r"\bfor\b", hw)
            if len(parts) == 2:
                it.impl_trait = _head_ident(parts[0])
                it.impl_of = _head_ident(parts[1])
            else:
                it.impl_of = _head_ident(parts[0])
            it.name = it.impl_of
            it.body_open = k
            it.end = match_close(m, k) + 1
            it.header_end = k
        else:
            nm = re.match(r"\s*([A-Za-z_][A-Za-z0-9_]*)", m[j:])
            it.name = nm.group(1) if nm else None
            # find terminator: ';' or '{...}' at depth 0 (parens/brackets/angles skipped)
            k = j
            while True:
                ch = m[k]
                if ch in "([":
                    k = match_close(m, k) + 1
                    continue
                if ch == ";":
                    it.body_open = None
                    it.end = k + 1
                    it.header_end = k
                    break
                if ch == "{":
                    it.body_open = k
                    it.header_end = k
                    e = match_close(m, k) + 1
                    # `struct X {...}` has no trailing ';' ; `const X: T = Foo {..};` does
                    if kind in ("const", "static", "type", "use"):
                        k = e
                        continue
                    it.end = e
                    break
                if ch == "=" and kind in ("struct",):
                    pass
                k += 1
                if k >= hi:
                    raise ScanError("unterminated item %s %s" % (kind, it.name))
        items.append(it)
        i = it.end
    return items


def _head_ident(s: str):
    """First path's last identifier before generics: ` crate::foo::Bar<T>` -> Bar ; `&'a Foo` -> Foo"""
    s = s.strip()
    s = re.sub(r"^&\s*('\w+\s+)?(mut\s+)?", "", s)
    mm = re.match(r"((?:[A-Za-z_][A-Za-z0-9_]*\s*::\s*)*)([A-Za-z_][A-Za-z0-9_]*)", s)
    return mm.group(2) if mm else None


def children(src, m, item):
    """Items directly inside an impl/trait/mod body."""
    if item.body_open is None:
        return []
    return top_level_items(src, m, item.body_open + 1, item.end - 1, parent=item)


def split_top_level(m: str, lo: int, hi: int, sep: str):
    """Split m[lo:hi] at top-level (bracket depth 0) occurrences of sep. Returns list of (a,b)."""
    parts = []
    a = lo
    i = lo
    L = len(sep)
    while i < hi:
        c = m[i]
        if c in OPEN:
            i = match_close(m, i) + 1
            continue
        if m.startswith(sep, i):
            parts.append((a, i))
            i += L
            a = i
            continue
        i += 1
    parts.append((a, hi))
    return parts


def find_word(m: str, word: str, lo: int, hi: int):
    """All start offsets of `word` as a whole token in m[lo:hi]."""
    res = []
    for mt in re.finditer(r"(?<![A-Za-z0-9_])" + re.escape(word) + r"(?![A-Za-z0-9_])", m[lo:hi]):
        res.append(lo + mt.start())
    return res
