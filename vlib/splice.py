"""Clause DSL parser and insert-only splicer (DESIGN.md §2.2, Appendix A).

clauses file grammar (line oriented; a directive's text continues until the next directive line):

  ## comment
  @fn <Type::name | name | <Type as Trait>::name>     (also @item <kind> <name> for struct/enum/trait)
    props C01 C02                  default property tags for this function's implicit obligations
    attr <text>                    attribute line(s) inserted before the item
    result <ident>                 name the return value
    requires[ID : tags] <expr>
    ensures[ID : tags] <expr>
    decreases <expr>
    start <stmts>                  at the start of the function body
    loop <N> invariant[ID : tags] <expr>
    loop <N> ensures[ID : tags] <expr>      (loops left through `break` / `while let`)
    exit[ID : tags] <proof text>            (at EVERY exit: each `return E;` and each leaf of the tail expression; the
                                             returned value is bound to the `result` name first, so the text may use it)
    loop <N> decreases <expr>
    loop <N> attr <text>
    loopstart <N>[ID : tags] <stmts>
    loopend <N>[ID : tags] <stmts>
    before[ID : tags] `<token>` [#k] <stmts>
    after[ID : tags] `<token>` [#k] <stmts>
    closure <N> ptype <k> <text>          inserted after the k-th parameter pattern
    closure <N> sig[ID : tags] <text>     inserted after the closing `|` ; body gets braces if needed
"""
import re
from .rustlex import (mask, match_close, match_open, match_angle, skip_ws, skip_ws_back, ScanError)
from .edits import Edit
from .rewrites import _cond_end, _expr_end, Unsupported


class ClauseError(Exception):
    pass


class AnchorLost(Exception):
    pass


DIRECTIVES = ("props", "attr", "result", "requires", "ensures", "decreases", "start", "loop", "loopstart",
              "loopend", "before", "after", "closure", "noctl", "recommends", "tail", "summary", "exit")


class Clause:
    def __init__(self, kind, cid, tags, text, args, lineno):
        self.kind, self.cid, self.tags, self.text, self.args, self.lineno = kind, cid, tags, text, args, lineno
        self.full_id = None

    def __repr__(self):
        return "Clause(%s %s %s)" % (self.kind, self.full_id or self.cid, self.args)


class FnSpec:
    def __init__(self, path, kind="fn"):
        self.path = path
        self.kind = kind
        self.clauses = []
        self.props = []


_HEAD = re.compile(r"^(\w+)(?:\s+(\d+))?(?:\s+(invariant|decreases|attr|ptype|sig))?(?:\s+(\d+))?\s*(?:\[([^\]]*)\])?\s*(.*)$", re.S)


def parse_clauses(text, unit_id):
    """-> list[FnSpec]"""
    specs = []
    cur = None
    pending = None
    auto = [0]

    def flush():
        nonlocal pending
        if pending is not None:
            cur.clauses.append(pending)
            pending = None

    for ln, raw in enumerate(text.split("\n"), 1):
        line = raw.rstrip()
        st = line.strip()
        if st.startswith("##"):
            continue
        if st.startswith("@fn ") or st.startswith("@item "):
            flush()
            if st.startswith("@fn "):
                cur = FnSpec(st[4:].strip(), "fn")
            else:
                parts = st.split()
                cur = FnSpec(parts[2], parts[1])
            specs.append(cur)
            continue
        first = st.split(None, 1)[0] if st else ""
        fw = re.match(r"[a-z]+", first)
        is_dir = bool(fw) and fw.group(0) in DIRECTIVES and (
            first == fw.group(0) or first[len(fw.group(0))] == "[")
        # a directive must be indented by exactly 2 spaces (continuations by more)
        indent = len(line) - len(line.lstrip())
        if is_dir and indent <= 2:
            if cur is None:
                raise ClauseError("line %d: directive outside @fn" % ln)
            flush()
            pending = _parse_directive(st, ln, auto)
        else:
            if pending is None:
                if st == "":
                    continue
                raise ClauseError("line %d: text outside directive: %r" % (ln, st))
            pending.text += "\n" + raw
    flush()
    for fs in specs:
        for c in fs.clauses:
            c.text = c.text.rstrip()
        short = fs.path.split("::")[-1]
        keep = []
        for c in fs.clauses:
            if c.kind == "props":
                fs.props = c.text.split()
                continue
            c.full_id = "%s.%s.%s" % (unit_id, short if fs.kind == "fn" else fs.path, c.cid)
            keep.append(c)
        fs.clauses = keep
        ids = [c.full_id for c in fs.clauses if not c.cid.startswith("_")]
        if len(ids) != len(set(ids)):
            raise ClauseError("duplicate clause ids in %s" % fs.path)
    return specs


def _parse_directive(st, ln, auto):
    kw = re.match(r"[a-z]+", st).group(0)
    rest = st[len(kw):]
    args = {}
    cid = None
    tags = []

    def take_id(s):
        nonlocal cid, tags
        s = s.lstrip()
        if s.startswith("["):
            j = s.index("]")
            inner = s[1:j]
            if ":" in inner:
                a, b = inner.split(":", 1)
                cid, tags = a.strip(), b.split()
            else:
                cid = inner.strip()
            s = s[j + 1:]
        return s

    def take_int(s):
        s = s.lstrip()
        mt = re.match(r"(\d+)", s)
        if not mt:
            raise ClauseError("line %d: number expected" % ln)
        return int(mt.group(1)), s[mt.end():]

    def take_tok(s):
        s = s.lstrip()
        if not s.startswith("`"):
            raise ClauseError("line %d: `token` expected" % ln)
        j = s.index("`", 1)
        tok = s[1:j]
        s = s[j + 1:].lstrip()
        k = None
        mt = re.match(r"#(\d+|\*)", s)
        if mt:
            k = 0 if mt.group(1) == "*" else int(mt.group(1))
            s = s[mt.end():]
        return tok, k, s

    kind = kw
    if kw in ("requires", "ensures", "decreases", "start", "attr", "result", "props", "recommends", "tail", "noctl", "summary", "exit"):
        rest = take_id(rest)
    elif kw == "loop":
        n, rest = take_int(rest)
        args["n"] = n
        rest = rest.lstrip()
        sub = re.match(r"(invariant|ensures|decreases|attr|bind)", rest)
        if not sub:
            raise ClauseError("line %d: loop N invariant|ensures|decreases|attr|bind" % ln)
        kind = "loop_" + sub.group(1)
        rest = take_id(rest[sub.end():])
    elif kw in ("loopstart", "loopend"):
        n, rest = take_int(rest)
        args["n"] = n
        rest = take_id(rest)
    elif kw in ("before", "after"):
        rest = take_id(rest)
        tok, k, rest = take_tok(rest)
        args["tok"], args["k"] = tok, k
    elif kw == "closure":
        n, rest = take_int(rest)
        args["n"] = n
        rest = rest.lstrip()
        sub = re.match(r"(ptype|sig)", rest)
        if not sub:
            raise ClauseError("line %d: closure N ptype|sig" % ln)
        kind = "closure_" + sub.group(1)
        rest = rest[sub.end():]
        if sub.group(1) == "ptype":
            k, rest = take_int(rest)
            args["k"] = k
        rest = take_id(rest)
    if cid is None:
        auto[0] += 1
        cid = "_%s%d" % (kind, auto[0])
    return Clause(kind, cid, tags, rest.strip(), args, ln)



# ------------------------------------------------------------------------------------------ exits
def _closure_ranges(sh):
    return [(c["open"], c["body_e"]) for c in sh.closures]


def _in_ranges(pos, ranges):
    return any(a <= pos < b for a, b in ranges)


def _block_tail(m, bo, bc):
    """-> ('expr', start, end) of the tail expression of block (bo, bc), or ('unit', pos) when the block has none"""
    j = skip_ws_back(m, bc)
    if j <= bo or m[j] in ";{":
        return ("unit", bc)
    jj = j
    if m[jj] == "}":
        jj = match_open(m, jj)
    p, _ = _stmt_start(m, jj, bo + 1)
    # a block-like statement without value (`for`, `while`, `loop`, else-less `if`) is not a tail expression
    if re.match(r"(?:'\w+\s*:\s*)?(for|while|loop)\b", m[p:]):
        return ("unit", bc)
    return ("expr", p, j + 1)


def _leaves(m, a, b, out):
    """leaf value expressions of the expression m[a:b] (through if/else chains, match arms and blocks)"""
    a = skip_ws(m, a)
    while b > a and m[b - 1].isspace():
        b -= 1
    km = re.match(r"(if|match|unsafe)\b", m[a:b])
    if km and km.group(1) == "if":
        k = a + 2
        has_else = False
        blocks = []
        while True:
            bo = _cond_end(m, k)
            bc = match_close(m, bo)
            blocks.append((bo, bc))
            nx = skip_ws(m, bc + 1)
            if nx < b and m.startswith("else", nx) and not (m[nx + 4].isalnum() or m[nx + 4] == "_"):
                k2 = skip_ws(m, nx + 4)
                if m.startswith("if", k2) and not (m[k2 + 2].isalnum() or m[k2 + 2] == "_"):
                    k = k2 + 2
                    continue
                if m[k2] == "{":
                    blocks.append((k2, match_close(m, k2)))
                    has_else = True
                break
            break
        if not has_else:
            out.append(("expr", a, b))
            return
        for bo, bc in blocks:
            t = _block_tail(m, bo, bc)
            if t[0] == "expr":
                _leaves(m, t[1], t[2], out)
            else:
                out.append(t)
        return
    if km and km.group(1) == "match":
        bo = _cond_end(m, a + 5)
        bc = match_close(m, bo)
        if bc + 1 < b and m[skip_ws(m, bc + 1):b].strip():
            out.append(("expr", a, b))          # `match .. { }.method()`: not a plain match
            return
        k = bo + 1
        while True:
            k = skip_ws(m, k)
            if k >= bc:
                break
            # find `=>` at depth 0
            q = k
            while q < bc:
                if m[q] in "([{":
                    q = match_close(m, q) + 1
                    continue
                if m[q] == "=" and m[q + 1] == ">":
                    break
                q += 1
            if q >= bc:
                break
            es = skip_ws(m, q + 2)
            if m[es] == "{":
                ec = match_close(m, es)
                t = _block_tail(m, es, ec)
                if t[0] == "expr":
                    _leaves(m, t[1], t[2], out)
                else:
                    out.append(t)
                k = ec + 1
                if m[skip_ws(m, k)] == ",":
                    k = skip_ws(m, k) + 1
            else:
                ee = _expr_end(m, es)
                _leaves(m, es, ee, out)
                k = ee
                if k < bc and m[skip_ws(m, k)] == ",":
                    k = skip_ws(m, k) + 1
        return
    if m[a] == "{":
        bc = match_close(m, a)
        if bc + 1 >= b:
            t = _block_tail(m, a, bc)
            if t[0] == "expr":
                _leaves(m, t[1], t[2], out)
            else:
                out.append(t)
            return
    out.append(("expr", a, b))


def exit_points(sh):
    """every exit of the function body: ('expr', start, end) of a returned value, or ('unit', pos)"""
    m = sh.m
    cr = _closure_ranges(sh)
    out = []
    for mt in re.finditer(r"(?<![A-Za-z0-9_])return(?![A-Za-z0-9_])", m[sh.body_open:sh.body_close]):
        s0 = sh.body_open + mt.start()
        if _in_ranges(s0, cr):
            continue
        es = skip_ws(m, s0 + 6)
        if m[es] == ";":
            out.append(("unit", s0))
            continue
        ee = _expr_end(m, es)
        out.append(("expr", es, ee))
    t = _block_tail(m, sh.body_open, sh.body_close)
    if t[0] == "expr":
        # a tail that is itself `return ..` was already collected
        if not re.match(r"return\b", m[skip_ws(m, t[1]):]):
            _leaves(m, t[1], t[2], out)
    else:
        out.append(t)
    return out


# ------------------------------------------------------------------------------------------ fn shape
class FnShape:
    """Positions inside the text of one fn item (after rewrites)."""

    def __init__(self, text):
        self.text = text
        m = self.m = mask(text)
        mt = re.search(r"(?<![A-Za-z0-9_])fn\s+([A-Za-z_][A-Za-z0-9_]*)", m)
        if not mt:
            raise AnchorLost("no fn keyword")
        self.name = mt.group(1)
        k = skip_ws(m, mt.end())
        if m[k] == "<":
            k = match_angle(m, k) + 1
            k = skip_ws(m, k)
        if m[k] != "(":
            raise AnchorLost("no parameter list")
        self.params_open = k
        self.params_close = match_close(m, k)
        k = skip_ws(m, self.params_close + 1)
        self.ret_start = self.ret_end = None
        if m.startswith("->", k):
            self.ret_start = skip_ws(m, k + 2)
        # header end: `{` or `;` at depth 0 (angles may contain no braces)
        j = k
        self.where_start = None
        while True:
            c = m[j]
            if c in "([":
                j = match_close(m, j) + 1
                continue
            if c in "{;":
                break
            if m.startswith("where", j) and not (m[j - 1].isalnum() or m[j - 1] == "_") and not (
                    m[j + 5].isalnum() or m[j + 5] == "_"):
                if self.where_start is None:
                    self.where_start = j
            j += 1
        self.header_end = j
        self.has_body = m[j] == "{"
        self.body_open = j if self.has_body else None
        self.body_close = match_close(m, j) if self.has_body else None
        if self.ret_start is not None:
            e = self.where_start if self.where_start is not None else self.header_end
            while m[e - 1].isspace():
                e -= 1
            self.ret_end = e
        # loops
        self.loops = []
        self.closures = []
        if self.has_body:
            for lm in re.finditer(r"(?<![A-Za-z0-9_'])(loop|while|for)(?![A-Za-z0-9_])", m[self.body_open:self.body_close]):
                s = self.body_open + lm.start()
                kw = lm.group(1)
                if kw == "for":
                    # the pattern may contain braces (struct patterns): find ` in ` outside every bracket first
                    k = s + 3
                    in_at = None
                    while k < self.body_close:
                        ch = m[k]
                        if ch in "([{":
                            k = match_close(m, k) + 1
                            continue
                        if ch in ";}":
                            break
                        if m[k:k + 2] == "in" and m[k - 1].isspace() and m[k + 2].isspace():
                            in_at = k
                            break
                        k += 1
                    if in_at is None:
                        continue
                    try:
                        bo = _cond_end(m, in_at + 2)
                    except Unsupported:
                        continue
                else:
                    try:
                        bo = _cond_end(m, s + len(kw))
                    except Unsupported:
                        continue
                # include a preceding label `'a: `
                ls = s
                lbl = re.search(r"'\w+\s*:\s*$", m[:s])
                if lbl:
                    ls = lbl.start()
                self.loops.append({"kw": kw, "start": ls, "body_open": bo, "body_close": match_close(m, bo)})
            self._find_closures()

    def _find_closures(self):
        m = self.m
        i = self.body_open
        end = self.body_close
        while i < end:
            c = m[i]
            if c == "|":
                j = skip_ws_back(m, i)
                prev = m[j]
                prev_word = re.search(r"(move|return)\s*$", m[:i])
                starts = prev in "(,=" or prev_word or (prev in "{;" )
                if m[i + 1] == "|" and prev not in "(,={;" and not prev_word:
                    i += 2
                    continue
                if not starts:
                    i += 1
                    continue
                # parameter list
                if m[i + 1] == "|":
                    pclose = i + 1
                    params = []
                else:
                    k = i + 1
                    params = []
                    ps = k
                    while True:
                        ch = m[k]
                        if ch in "([{":
                            k = match_close(m, k) + 1
                            continue
                        if ch == "<":
                            k = match_angle(m, k) + 1
                            continue
                        if ch == "," or ch == "|":
                            if m[ps:k].strip():
                                # pattern end = before ':' if a type is present
                                seg = m[ps:k]
                                colon = _top_colon(seg)
                                pe = ps + (colon if colon is not None else len(seg.rstrip()))
                                params.append((ps, pe, colon is not None))
                            if ch == "|":
                                break
                            ps = k + 1
                        k += 1
                    pclose = k
                bs = skip_ws(m, pclose + 1)
                has_ret = m.startswith("->", bs)
                if has_ret:
                    bs2 = bs
                    while m[bs2] != "{":
                        bs2 += 1
                    body_s = bs2
                else:
                    body_s = bs
                if m[body_s] == "{":
                    body_e = match_close(m, body_s) + 1
                    block = True
                else:
                    body_e = _expr_end(m, body_s)
                    block = False
                self.closures.append({"open": i, "pclose": pclose, "params": params, "body_s": body_s,
                                      "body_e": body_e, "block": block, "has_ret": has_ret})
                i = pclose + 1
                continue
            i += 1


def _safe_cond_end(m, i):
    try:
        return _cond_end(m, i)
    except Unsupported:
        return min(len(m), i + 200)


def _top_colon(seg):
    d = 0
    for k, ch in enumerate(seg):
        if ch in "([{<":
            d += 1
        elif ch in ")]}>":
            d -= 1
        elif ch == ":" and d == 0 and seg[k:k + 2] != "::" and (k == 0 or seg[k - 1] != ":"):
            return k
    return None


def _stmt_start(m, pos, lo):
    """start of the statement containing pos (after the previous `;`/`{`/`}` at the same level)"""
    k = pos - 1
    while k >= lo:
        c = m[k]
        if c in ")]":
            k = match_open(m, k) - 1
            continue
        if c == "}":
            # a `}` directly followed (ws) by `else` or `.` continues the same statement
            nx = skip_ws(m, k + 1)
            if m.startswith("else", nx) or m[nx] in ".?":
                k = match_open(m, k) - 1
                continue
            break
        if c in ";{":
            break
        k -= 1
    return skip_ws(m, k + 1), m[k] if k >= 0 else "{"


def _block_stmt_end(m, start):
    """end (exclusive) of a block-like statement (`if..else..`, `match`, `for`, `while`, `loop`) starting at start"""
    mt = re.match(r"(?:'\w+\s*:\s*)?(if|match|for|while|loop)\b", m[start:])
    if not mt:
        return None
    k = start + mt.end()
    while True:
        bo = _cond_end(m, k)
        bc = match_close(m, bo)
        nx = skip_ws(m, bc + 1)
        if mt.group(1) == "if" and m.startswith("else", nx) and not (m[nx + 4].isalnum() or m[nx + 4] == "_"):
            k = nx + 4
            k2 = skip_ws(m, k)
            if m.startswith("if", k2) and not (m[k2 + 2].isalnum() or m[k2 + 2] == "_"):
                k = k2 + 2
            continue
        return bc + 1


def _stmt_end(m, pos, hi):
    ss, _ = _stmt_start(m, pos, 0)
    be = _block_stmt_end(m, ss)
    if be is not None and be > pos:
        nx = skip_ws(m, be)
        if m[nx] not in ".?;":
            return be
    k = pos
    while k < hi:
        c = m[k]
        if c in "([{":
            k = match_close(m, k) + 1
            continue
        if c == ";":
            return k + 1
        if c in ")]}":
            raise AnchorLost("`after` anchor is in a tail expression")
        k += 1
    raise AnchorLost("no statement end")


def _indent_at(text, pos):
    q = pos
    while q > 0 and text[q - 1] in " \t":
        q -= 1
    if q == 0 or text[q - 1] == "\n":
        return text[q:pos]
    # indentation of the line containing pos
    ls = text.rfind("\n", 0, pos) + 1
    mt = re.match(r"[ \t]*", text[ls:])
    return mt.group(0)


def splice_fn(text, fs: FnSpec):
    """-> list[Edit] (insert-only). Edit.info = Clause for clause-bearing insertions."""
    sh = FnShape(text)
    m = sh.m
    eds = []
    # soft anchors: a clause whose anchor has vanished is recorded as lost and skipped; the function is
    # still verified with the remaining clauses (the driver decides: failed tagged obligation => VIOLATION,
    # otherwise a lost tagged clause => undecided)
    sh.lost = []
    by_kind = {}
    for c in fs.clauses:
        by_kind.setdefault(c.kind, []).append(c)

    # attrs before the item (after existing attributes is fine: insert at very start)
    for c in by_kind.get("attr", []):
        ind = _indent_at(text, 0)
        eds.append(Edit(0, 0, c.text + "\n" + ind, "S", c))

    # result naming
    for c in by_kind.get("result", []):
        if sh.ret_start is None:
            raise AnchorLost("%s: `result` on a fn without return type" % fs.path)
        if m[sh.ret_start] == "(" and re.match(r"\(\s*\w+\s*:", m[sh.ret_start:]):
            continue
        eds.append(Edit(sh.ret_start, sh.ret_start, "(%s: " % c.text.strip(), "S", c))
        eds.append(Edit(sh.ret_end, sh.ret_end, ")", "S", c))

    # header clauses
    hdr = []
    base_ind = _indent_at(text, m.index("fn"))
    for kind in ("requires", "recommends", "ensures", "decreases"):
        cs = by_kind.get(kind, [])
        if not cs:
            continue
        hdr.append((None, "%s    %s\n" % (base_ind, kind)))
        for c in cs:
            hdr.append((c, "%s        %s,\n" % (base_ind, c.text)))
    if hdr:
        pos = sh.header_end
        # if header ends with where-clause lacking trailing comma, add one
        pre = ""
        j = skip_ws_back(m, pos)
        if sh.where_start is not None and m[j] != ",":
            pre = ","
        # insert a newline first so clauses start on their own line
        q = pos
        while q > 0 and text[q - 1] in " \t":
            q -= 1
        on_own_line = q > 0 and text[q - 1] == "\n"
        first = True
        for c, t in hdr:
            if first:
                t = (pre + ("" if on_own_line else "\n")) + t
                first = False
            eds.append(Edit(q if on_own_line else pos, q if on_own_line else pos, t, "S", c))
        if not on_own_line and sh.has_body:
            eds.append(Edit(pos, pos, base_ind, "S", None))

    # body start
    for c in by_kind.get("start", []):
        p = sh.body_open + 1
        eds.append(Edit(p, p, "\n%s    %s" % (base_ind, c.text), "S", c))

    # before the tail expression of the body
    for c in by_kind.get("tail", []):
        j = skip_ws_back(m, sh.body_close)
        if m[j] in ";{":
            sh.lost.append((c, "body has no tail expression"))
            continue
        jj = j
        if m[jj] == "}":
            # the tail expression ends in a block (`match .. { }`, `if .. { } else { }`): start from its opening brace
            jj = match_open(m, jj)
        p, _ = _stmt_start(m, jj, sh.body_open + 1)
        ind = _indent_at(text, p)
        eds.append(Edit(p, p, "%s\n%s" % (c.text, ind), "S", c))

    # at every exit (returns and leaves of the tail expression)
    ex_clauses = by_kind.get("exit", [])
    if ex_clauses:
        res = None
        for c0 in by_kind.get("result", []):
            res = c0.text.strip()
        try:
            pts = exit_points(sh)
        except (Unsupported, ScanError, IndexError) as e:
            pts = None
            for c in ex_clauses:
                sh.lost.append((c, "exit points not found (%s)" % e))
        for pt in (pts or []):
            if pt[0] == "expr" and res:
                a, b = pt[1], pt[2]
                eds.append(Edit(a, a, "{ let %s = " % res, "S", None))
                first = True
                for c in ex_clauses:
                    eds.append(Edit(b, b, ("; " if first else " ") + c.text, "S", c))
                    first = False
                eds.append(Edit(b, b, " %s }" % res, "S", None))
            else:
                pos = pt[1]
                for c in ex_clauses:
                    eds.append(Edit(pos, pos, c.text + " ", "S", c))

    # loops
    def loop_n(c):
        n = c.args["n"]
        if n < 1 or n > len(sh.loops):
            sh.lost.append((c, "loop %d not found (%d loops)" % (n, len(sh.loops))))
            return None
        return sh.loops[n - 1]

    loop_groups = {}
    for kind in ("loop_invariant", "loop_ensures", "loop_decreases"):
        for c in by_kind.get(kind, []):
            loop_groups.setdefault(c.args["n"], {}).setdefault(kind, []).append(c)
    for n, g in sorted(loop_groups.items()):
        lp = sh.loops[n - 1] if 1 <= n <= len(sh.loops) else None
        if lp is None:
            for cs_ in g.values():
                for c_ in cs_:
                    sh.lost.append((c_, "loop %d not found (%d loops)" % (n, len(sh.loops))))
            continue
        ind = _indent_at(text, lp["start"])
        pos = lp["body_open"]
        first = True
        for kind, word in (("loop_invariant", "invariant"), ("loop_ensures", "ensures"), ("loop_decreases", "decreases")):
            cs = g.get(kind, [])
            if not cs:
                continue
            eds.append(Edit(pos, pos, ("\n" if first else "") + "%s    %s\n" % (ind, word), "S", None))
            first = False
            for c in cs:
                eds.append(Edit(pos, pos, "%s        %s,\n" % (ind, c.text), "S", c))
        eds.append(Edit(pos, pos, ind, "S", None))
    for c in by_kind.get("loop_bind", []):
        lp = loop_n(c)
        if lp is None:
            continue
        if lp["kw"] != "for":
            sh.lost.append((c, "loop %d is not a `for` loop (bind)" % c.args["n"]))
            continue
        inm = re.search(r"\sin\s+", m[lp["start"]:lp["body_open"]])
        pos = lp["start"] + inm.end()
        eds.append(Edit(pos, pos, c.text.strip() + ": ", "S", c))
    for c in by_kind.get("loop_attr", []):
        lp = loop_n(c)
        if lp is None:
            continue
        ind = _indent_at(text, lp["start"])
        eds.append(Edit(lp["start"], lp["start"], c.text + "\n" + ind, "S", c))
    for c in by_kind.get("loopstart", []):
        lp = loop_n(c)
        if lp is None:
            continue
        ind = _indent_at(text, lp["start"])
        p = lp["body_open"] + 1
        eds.append(Edit(p, p, "\n%s    %s" % (ind, c.text), "S", c))
    for c in by_kind.get("loopend", []):
        lp = loop_n(c)
        if lp is None:
            continue
        ind = _indent_at(text, lp["start"])
        p = lp["body_close"]
        q = p
        while q > 0 and text[q - 1] in " \t":
            q -= 1
        eds.append(Edit(q, q, "%s    %s\n" % (ind, c.text), "S", c))

    # before / after
    for kind in ("before", "after"):
        for c in by_kind.get(kind, []):
            tok, k = c.args["tok"], c.args["k"]
            occ = []
            # anchors match modulo whitespace (a reformatted statement keeps its anchor): every whitespace run of the
            # token matches any whitespace run, and whitespace may appear around punctuation
            parts = [re.escape(x) for x in re.findall(r"[A-Za-z0-9_]+|[^A-Za-z0-9_\s]", tok)]
            rx = re.compile(r"\s*".join(parts)) if parts else None
            if rx is not None:
                # adjacent word tokens of the anchor must stay separated by whitespace
                words = re.findall(r"[A-Za-z0-9_]+|[^A-Za-z0-9_\s]|\s+", tok)
                pieces = []
                prev_word = False
                pending_ws = False
                for w in words:
                    if w.isspace():
                        pending_ws = True
                        continue
                    is_word = bool(re.fullmatch(r"[A-Za-z0-9_]+", w))
                    if pieces:
                        pieces.append(r"\s+" if (prev_word and is_word) else r"\s*")
                    pieces.append(re.escape(w))
                    prev_word = is_word
                    pending_ws = False
                rx = re.compile("".join(pieces))
                for mt_ in rx.finditer(text, sh.body_open, sh.body_close):
                    i = mt_.start()
                    if m[i:mt_.end()].strip() != "":
                        occ.append(i)
            if not occ:
                sh.lost.append((c, "anchor `%s` not found" % tok))
                continue
            if k is None and len(occ) > 1:
                sh.lost.append((c, "anchor `%s` is ambiguous (%d sites)" % (tok, len(occ))))
                continue
            if k == 0:
                sites = occ
            else:
                i = occ[(k or 1) - 1] if (k or 1) <= len(occ) else None
                if i is None:
                    sh.lost.append((c, "anchor `%s` #%d not found" % (tok, k)))
                    continue
                sites = [i]
            for i in sites:
              if kind == "before":
                p, _ = _stmt_start(m, i, sh.body_open + 1)
                ind = _indent_at(text, p)
                eds.append(Edit(p, p, "%s\n%s" % (c.text, ind), "S", c))
              else:
                try:
                    p = _stmt_end(m, i, sh.body_close)
                except AnchorLost as e_:
                    sh.lost.append((c, str(e_)))
                    continue
                ss, _ = _stmt_start(m, i, sh.body_open + 1)
                ind = _indent_at(text, ss)
                eds.append(Edit(p, p, "\n%s%s" % (ind, c.text), "S", c))

    # closures
    cl_groups = {}
    for kind in ("closure_ptype", "closure_sig"):
        for c in by_kind.get(kind, []):
            cl_groups.setdefault(c.args["n"], []).append(c)
    for n, cs in sorted(cl_groups.items()):
        if n < 1 or n > len(sh.closures):
            # soft anchor: a closure that is no longer there needs no annotation; the function is
            # still verified against its contract (a bypassed closure then fails a real obligation)
            sh.soft_skipped = getattr(sh, "soft_skipped", []) + ["closure %d" % n]
            continue
        cl = sh.closures[n - 1]
        for c in cs:
            if c.kind == "closure_ptype":
                k = c.args["k"]
                if k < 1 or k > len(cl["params"]):
                    raise AnchorLost("%s: closure %d has no parameter %d" % (fs.path, n, k))
                ps, pe, typed = cl["params"][k - 1]
                if typed:
                    continue
                eds.append(Edit(pe, pe, c.text, "S", c))
            else:
                if cl["has_ret"]:
                    raise AnchorLost("%s: closure %d already has a return type" % (fs.path, n))
                p = cl["pclose"] + 1
                if cl["block"]:
                    eds.append(Edit(p, p, " " + c.text, "S", c))
                else:
                    eds.append(Edit(p, p, " " + c.text + " {", "S", c))
                    eds.append(Edit(cl["body_e"], cl["body_e"], " }", "S", None))
    return eds, sh
