"""Run Verus on a generated unit file and classify its diagnostics."""
import json
import os
import re
import subprocess
import time

from .build import locate

VERUS = os.environ.get("VERUS_BIN", "verus")
RLIMIT = os.environ.get("VERIF_RLIMIT", "40")

# messages that are failed proof obligations (everything else at level=error is infrastructure)
OBLIGATION_MSGS = [
    ("postcondition not satisfied", "postcondition"),
    ("precondition not satisfied", "precondition"),
    ("fails to satisfy `callee.requires(args)`", "precondition"),
    ("unable to prove post-condition of closure", "postcondition"),
    ("unable to prove pre-condition of closure", "precondition"),
    ("invariant not satisfied", "invariant"),
    ("assertion failed", "assertion"),
    ("possible arithmetic underflow/overflow", "overflow"),
    ("possible division by zero", "div0"),
    ("possible bit shift underflow/overflow", "shift"),
    ("decreases not satisfied", "decreases"),
    ("unreachable", "unreachable"),
    ("recommendation not met", "recommends"),
    ("could not prove termination", "decreases"),
    ("loop invariant not satisfied", "invariant"),
    ("constructed value may fail to meet its declared type invariant", "typeinv"),
]
RLIMIT_MSGS = ("Resource limit (rlimit) exceeded", "rlimit", "timed out", "solver disagreement")


class VerusRun:
    pass


def run_verus(path, timeout=600):
    cmd = [VERUS, "--edition", "2024", "--triggers-mode", "silent", "--output-json", "--time",
           "--multiple-errors", "40", "--rlimit", RLIMIT, path, "--", "--error-format=json"]
    t0 = time.time()
    r = VerusRun()
    r.cmd = " ".join(cmd)
    try:
        pr = subprocess.run(cmd, capture_output=True, text=True, timeout=timeout,
                            cwd=os.path.dirname(path))
        r.timeout = False
        r.stdout, r.stderr, r.rc = pr.stdout, pr.stderr, pr.returncode
    except subprocess.TimeoutExpired as e:
        r.timeout = True
        r.stdout, r.stderr, r.rc = (e.stdout or ""), (e.stderr or ""), -1
        if isinstance(r.stdout, bytes):
            r.stdout = r.stdout.decode("utf-8", "replace")
        if isinstance(r.stderr, bytes):
            r.stderr = r.stderr.decode("utf-8", "replace")
    r.wall = time.time() - t0
    r.json = None
    try:
        i = r.stdout.index("{")
        r.json = json.loads(r.stdout[i:])
    except Exception:
        pass
    r.diags = []
    for line in r.stderr.split("\n"):
        line = line.strip()
        if not line.startswith("{"):
            continue
        try:
            d = json.loads(line)
        except Exception:
            continue
        if d.get("$message_type") == "diagnostic":
            r.diags.append(d)
    return r


def func_breakdown(run):
    """per-function SMT results: {name: {success, time_ms, rlimit}}"""
    out = {}
    if not run.json:
        return out
    try:
        mods = run.json["times-ms"]["smt"]["smt-run-module-times"]
    except Exception:
        return out
    for mod in mods:
        for fb in mod.get("function-breakdown", []):
            out[fb.get("function")] = {"success": fb.get("success"), "time_us": fb.get("time-micros", fb.get("time")),
                                       "rlimit": fb.get("rlimit")}
    return out


class Failure:
    def __init__(self, kind, msg, where, clause=None, piece=None, detail=None, rendered=None, src_line=None):
        self.kind, self.msg, self.where, self.clause, self.piece = kind, msg, where, clause, piece
        self.detail, self.rendered, self.src_line = detail, rendered, src_line

    def as_dict(self):
        return {"kind": self.kind, "message": self.msg, "where": self.where,
                "clause": self.clause.full_id if self.clause is not None and hasattr(self.clause, "full_id") else self.clause,
                "function": self.piece.fnpath if self.piece is not None else None,
                "source": (self.piece.srcspec + ":" + str(self.src_line)) if self.piece is not None and self.src_line else None,
                "rendered": self.rendered}


def classify(b, run):
    """-> (failures: list[Failure], infra: list[str]).
    failures = failed proof obligations mapped to clause ids / functions; infra = everything else
    that makes the run undecided (type errors, unsupported constructs, rlimit, crash)."""
    failures, infra = [], []
    data = b.text.encode()

    def char_off(byte_off):
        return len(data[:byte_off].decode("utf-8", "ignore"))

    if run.timeout:
        infra.append("verus timed out")
    for d in run.diags:
        lvl = d.get("level")
        msg = d.get("message", "")
        if lvl not in ("error",):
            continue
        if msg.startswith("aborting due to"):
            continue
        kind = None
        for pat, k in OBLIGATION_MSGS:
            if pat in msg:
                kind = k
                break
        if any(x in msg for x in RLIMIT_MSGS):
            infra.append("rlimit/timeout: " + msg + " " + _first_span(d))
            continue
        if kind is None:
            infra.append("verus error: " + msg + " " + _first_span(d))
            # structured copy for the driver's repair loop (clause no longer type-checks / callee not extracted)
            item = {"msg": msg, "clause": None, "piece": None}
            for sp in d.get("spans", []):
                if sp.get("file_name") and os.path.basename(sp["file_name"]) != os.path.basename(b.path):
                    continue
                loc = locate(b, char_off(sp["byte_start"]))
                if loc[0] == "clause" and loc[1] is not None and item["clause"] is None:
                    item["clause"] = loc[1]
                    item["piece"] = loc[2]
                elif loc[0] == "code" and item["piece"] is None:
                    item["piece"] = loc[1]
                    item["code_off"] = loc[2]
            run.infra_items = getattr(run, "infra_items", []) + [item]
            continue
        spans = d.get("spans", [])
        located = []
        for sp in spans:
            if sp.get("file_name") and os.path.basename(sp["file_name"]) != os.path.basename(b.path):
                # macro expansion (assert!/debug_assert!/panic!): walk out to the call site in our file
                e, depth = sp, 0
                while e is not None and depth < 8 and os.path.basename(e.get("file_name", "")) != os.path.basename(b.path):
                    e = (e.get("expansion") or {}).get("span")
                    depth += 1
                if e is not None and os.path.basename(e.get("file_name", "")) == os.path.basename(b.path):
                    sp2 = dict(e)
                    sp2["label"] = sp.get("label")
                    located.append((sp2, locate(b, char_off(e["byte_start"]))))
                else:
                    located.append((sp, ("foreign", sp.get("file_name"))))
                continue
            located.append((sp, locate(b, char_off(sp["byte_start"]))))
        clause = None
        piece = None
        code_piece = None
        prel = None
        src_line = None
        for sp, loc in located:
            if loc[0] == "clause" and loc[1] is not None and clause is None:
                clause, piece = loc[1], loc[2]
            elif loc[0] == "clause" and loc[1] is None and piece is None:
                piece = loc[2]
            elif loc[0] == "code" and code_piece is None:
                code_piece = loc[1]
                src_line = loc[1].src_line + loc[1].t1.count("\n", 0, loc[2]) if loc[1].src_line else None
            elif loc[0] == "prelude" and prel is None:
                prel = loc[1]
        where = "; ".join("%s:%s %s" % (sp.get("line_start"), sp.get("column_start"), sp.get("label") or "") for sp, _ in located)
        pid = b.prelude_ids.get(prel) if prel is not None else None
        f = Failure(kind, msg, where, clause=clause, piece=piece or code_piece, rendered=d.get("rendered"),
                    src_line=src_line)
        f.prelude_id = pid
        f.prelude_line = prel
        f.code_piece = code_piece
        failures.append(f)
    if run.json is None and not run.diags:
        infra.append("verus produced no JSON (rc=%s): %s" % (run.rc, run.stderr[-400:]))
    elif run.json is not None:
        vr = run.json.get("verification-results", {})
        if vr.get("encountered-vir-error"):
            if not infra:
                infra.append("verus reported a VIR error")
        if not vr.get("success") and not failures and not infra:
            infra.append("verus failed without diagnostics (rc=%s): %s" % (run.rc, run.stderr[-400:]))
    return failures, infra


def _first_span(d):
    sp = d.get("spans") or []
    if not sp:
        return ""
    s = sp[0]
    txt = (s.get("text") or [{}])[0].get("text", "").strip()
    return "@%s:%s `%s`" % (s.get("line_start"), s.get("column_start"), txt[:100])
