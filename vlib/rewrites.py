"""Extraction rewrites R1..R14 (DESIGN.md §4). Each works on the text of one extracted item.

Every rewrite is a function text -> list[Edit]; rewrites are applied one kind at a time (and a kind
may be iterated until it finds no more sites), every step is recorded and reversed as a self-check.
A shape outside the fixed pattern raises Unsupported (=> exit 2, never an alarm).
"""
import re
from .rustlex import (mask, match_close, match_open, skip_ws, skip_ws_back, split_top_level, find_word,
                      ScanError)
from .edits import Edit, apply_edits, revert


class Unsupported(Exception):
    pass


# ---------------------------------------------------------------- R1 visibility
def r1_visibility(text):
    """delete `pub`, `pub(crate)`, `pub(super)`, `pub(in path)` (single-module output crate)."""
    m = mask(text)
    eds = []
    for mt in re.finditer(r"(?<![A-Za-z0-9_])pub(\s*\((?:crate|super|self|in [^)]*)\))?\s+", m):
        eds.append(Edit(mt.start(), mt.end(), "", "R1"))
    return eds


def _split_fields(m, lo, hi):
    """split a field list at commas that are outside every bracket AND outside generic angle brackets"""
    parts, a, i, ang = [], lo, lo, 0
    while i < hi:
        c = m[i]
        if c in "([{":
            i = match_close(m, i) + 1
            continue
        if c == "<":
            ang += 1
        elif c == ">" and m[i - 1] not in "-=":
            ang = max(0, ang - 1)
        elif c == "," and ang == 0:
            parts.append((a, i))
            a = i + 1
        i += 1
    parts.append((a, hi))
    return parts


def r1p_all_public(text):
    """alternative to R1 (units whose contracts sit on impls of public traits): every extracted item and
    field becomes `pub`: `pub(..)` -> `pub`, and `pub ` is inserted where no visibility is written.
    Not applied to items inside trait impls / trait declarations (the builder passes those pieces
    through R1 only)."""
    m = mask(text)
    eds = []
    for mt in re.finditer(r"(?<![A-Za-z0-9_])pub\s*\((?:crate|super|self|in [^)]*)\)", m):
        eds.append(Edit(mt.start(), mt.end(), "pub", "R1"))
    # item keyword at the start of the piece (after attributes)
    k = 0
    while True:
        k = skip_ws(m, k)
        if m.startswith("#", k):
            lb = m.index("[", k)
            k = match_close(m, lb) + 1
            continue
        break
    head = re.match(r"(pub(?:\s*\([^)]*\))?(?![A-Za-z0-9_]))?\s*(?:const\s+|async\s+|unsafe\s+)*(fn|struct|enum|trait|type|const|static)\b", m[k:])
    if head and not head.group(1):
        eds.append(Edit(k, k, "pub ", "R1"))
    if head and head.group(2) == "struct":
        # fields
        j = k + head.end()
        while j < len(m) and m[j] not in "{(;":
            if m[j] == "<":
                from .rustlex import match_angle
                j = match_angle(m, j)
            j += 1
        if j < len(m) and m[j] in "{(":
            close = match_close(m, j)
            for (a, b) in _split_fields(m, j + 1, close):
                a2 = skip_ws(m, a)
                while m.startswith("#", a2):
                    lb = m.index("[", a2)
                    a2 = skip_ws(m, match_close(m, lb) + 1)
                if a2 >= b or m[a2:b].strip() == "":
                    continue
                if not re.match(r"pub(?![A-Za-z0-9_])", m[a2:]):
                    eds.append(Edit(a2, a2, "pub ", "R1"))
    return eds


# ---------------------------------------------------------------- R2 attributes / docs
DROP_DERIVES = ("Debug",)
DROP_ATTRS = ("inline", "must_use", "doc", "cfg_attr", "allow", "expect", "track_caller", "cold",
              "repr", "non_exhaustive")


def r2_attrs(text, drop_derives=()):
    m = mask(text)
    eds = []
    for mt in re.finditer(r"#\s*\[", m):
        lb = m.index("[", mt.start())
        rb = match_close(m, lb)
        name = re.match(r"\s*([A-Za-z_:]+)", m[lb + 1:rb])
        if name and name.group(1) in DROP_ATTRS:
            end = rb + 1
            # swallow the rest of the line if it is blank
            k = end
            while k < len(text) and text[k] in " \t":
                k += 1
            if k < len(text) and text[k] == "\n":
                # also remove leading indentation of this line
                s = mt.start()
                while s > 0 and text[s - 1] in " \t":
                    s -= 1
                if s == 0 or text[s - 1] == "\n":
                    eds.append(Edit(s, k + 1, "", "R2"))
                    continue
            eds.append(Edit(mt.start(), end, "", "R2"))
    # `Debug` (and other non-semantic derives) leave derive lists
    for mt in re.finditer(r"#\s*\[\s*derive\s*\(", m):
        lp = mt.end() - 1
        rp = match_close(m, lp)
        names = [x.strip() for x in m[lp + 1:rp].split(",") if x.strip()]
        keep = [x for x in names if x not in DROP_DERIVES and x not in drop_derives]
        if keep != names:
            if keep:
                eds.append(Edit(lp + 1, rp, ", ".join(keep), "R2"))
            else:
                rb = match_close(m, m.index("[", mt.start()))
                eds.append(Edit(mt.start(), rb + 1, "", "R2"))
    # doc comments: `///...` and `//!...` lines
    for mt in re.finditer(r"(?m)^[ \t]*//[/!].*\n", text):
        # must really be a comment (masked to blanks)
        if m[mt.start():mt.end()].strip() == "":
            eds.append(Edit(mt.start(), mt.end(), "", "R2"))
    return eds


# ---------------------------------------------------------------- R3 assert_eq!
def r3_assert_eq(text):
    m = mask(text)
    eds = []
    for mt in re.finditer(r"(?<![A-Za-z0-9_])(debug_assert|assert)_(eq|ne)\s*!\s*\(", m):
        lp = mt.end() - 1
        rp = match_close(m, lp)
        parts = split_top_level(m, lp + 1, rp, ",")
        parts = [(a, b) for (a, b) in parts if m[a:b].strip() != "" or text[a:b].strip() != ""]
        if len(parts) < 2:
            raise Unsupported("R3: assert_eq with <2 args")
        a = text[parts[0][0]:parts[0][1]].strip()
        b = text[parts[1][0]:parts[1][1]].strip()
        op = "==" if mt.group(2) == "eq" else "!="
        new = "%s!((%s) %s (%s))" % (mt.group(1), a, op, b)
        eds.append(Edit(mt.start(), rp + 1, new, "R3"))
    return eds


# ---------------------------------------------------------------- R4 logging / metrics statements
def _stmt_span(text, m, a, b):
    """extend [a,b) to whole lines if the statement is alone on its lines"""
    s = a
    while s > 0 and text[s - 1] in " \t":
        s -= 1
    e = b
    while e < len(text) and text[e] in " \t":
        e += 1
    if (s == 0 or text[s - 1] == "\n") and e < len(text) and text[e] == "\n":
        return s, e + 1
    return a, b


def r4_logging(text, extra_tokens=()):
    """delete statement-level `tracing::x!(..);` `counter!(..)...;` `histogram!(..)...;` and the
    statements named by `extra_tokens` (metrics-only statements listed in unit.toml)."""
    m = mask(text)
    eds = []
    for mt in re.finditer(r"(?<![A-Za-z0-9_:])(tracing::\w+|counter|histogram|gauge)\s*!\s*\(", m):
        j = skip_ws_back(m, mt.start())
        if j >= 0 and m[j] not in ";{}":
            raise Unsupported("R4: logging macro not at statement level")
        lp = mt.end() - 1
        rp = match_close(m, lp)
        k = rp + 1
        while m[k] != ";":
            if m[k] in "([{":
                k = match_close(m, k)
            k += 1
        a, b = _stmt_span(text, m, mt.start(), k + 1)
        eds.append(Edit(a, b, "", "R4"))
    for tok in extra_tokens:
        idx = text.find(tok)
        if idx < 0:
            continue
        if text.find(tok, idx + 1) >= 0:
            raise Unsupported("R4: listed statement %r not unique" % tok)
        j = skip_ws_back(m, idx)
        if j >= 0 and m[j] not in ";{}":
            raise Unsupported("R4: listed statement %r not at statement start" % tok)
        k = idx
        while m[k] != ";":
            if m[k] in "([{":
                k = match_close(m, k)
            k += 1
        a, b = _stmt_span(text, m, idx, k + 1)
        eds.append(Edit(a, b, "", "R4"))
    return eds


# ---------------------------------------------------------------- R5 derive(Structural)
def r5_structural(text):
    """append `Structural` to a derive list that has both PartialEq and Eq (types only)."""
    m = mask(text)
    eds = []
    for mt in re.finditer(r"#\s*\[\s*derive\s*\(", m):
        lp = mt.end() - 1
        rp = match_close(m, lp)
        names = [x.strip() for x in m[lp + 1:rp].split(",") if x.strip()]
        if "PartialEq" in names and "Eq" in names and "Structural" not in names:
            j = skip_ws_back(m, rp)
            sep = " " if m[j] == "," else ", "
            eds.append(Edit(rp, rp, sep + "Structural", "R5"))
    return eds


# ---------------------------------------------------------------- R6 let-chains
def _if_sites(m):
    return [mt.start() for mt in re.finditer(r"(?<![A-Za-z0-9_])if(?![A-Za-z0-9_])", m)]


def _cond_end(m, i):
    """index of the `{` that opens the body of the `if`/`while` whose keyword ends at i."""
    k = i
    n = len(m)
    while k < n:
        c = m[k]
        if c in "([":
            k = match_close(m, k) + 1
            continue
        if c == "{":
            return k
        if c == ";":
            raise Unsupported("no body for if/while")
        k += 1
    raise Unsupported("no body for if/while")


def r6_let_chain(text):
    """One site per call (the first found); caller iterates."""
    m = mask(text)
    for s in _if_sites(m):
        cstart = s + 2
        try:
            bo = _cond_end(m, cstart)
        except Unsupported:
            continue
        parts = split_top_level(m, cstart, bo, "&&")
        if len(parts) < 2:
            continue
        strs = [text[a:b].strip() for (a, b) in parts]
        is_let = [re.match(r"let\b", x) is not None for x in strs]
        if not any(is_let):
            continue
        # a `||` at top level next to a let is not a let-chain we know
        for (a, b), il in zip(parts, is_let):
            if il and len(split_top_level(m, a, b, "||")) > 1:
                raise Unsupported("R6: `||` inside let-chain")
        bc = match_close(m, bo)
        nx = skip_ws(m, bc + 1)
        if m.startswith("else", nx) and not (m[nx + 4].isalnum() or m[nx + 4] == "_"):
            raise Unsupported("R6: let-chain with else")
        pj = skip_ws_back(m, s)
        if pj >= 3 and m[pj - 3:pj + 1] == "else":
            raise Unsupported("R6: `else if` let-chain")
        groups = []
        cur = []
        for x, il in zip(strs, is_let):
            if il:
                if cur:
                    groups.append(" && ".join(cur))
                    cur = []
                groups.append(x)
            else:
                cur.append(x)
        if cur:
            groups.append(" && ".join(cur))
        head = " ".join("if %s {" % g for g in groups)
        # replace `if COND {` and add the extra closers after the body
        e1 = Edit(s, bo + 1, head, "R6")
        e2 = Edit(bc + 1, bc + 1, " }" * (len(groups) - 1), "R6")
        return [e1, e2]
    return []


# ---------------------------------------------------------------- R7 reference patterns on Copy bindings
def r7_ref_patterns(text):
    """One site per call. Handles
       (a) `if let PAT = e {`, `while let PAT = e {`, `for PAT in e {` where PAT contains `&ident`
       (b) closure parameter `|&ident|`."""
    m = mask(text)
    # (a)
    for mt in re.finditer(r"(?<![A-Za-z0-9_])(if\s+let|while\s+let|for)(?![A-Za-z0-9_])", m):
        kw_end = mt.end()
        try:
            bo = _cond_end(m, kw_end)
        except Unsupported:
            continue
        sep = " in " if mt.group(1) == "for" else "="
        if mt.group(1) == "for":
            parts = re.search(r"\sin\s", m[kw_end:bo])
            if not parts:
                continue
            pat_end = kw_end + parts.start()
        else:
            # first top-level '=' that is not '==' / '=>' / '<=' ...
            pat_end = None
            k = kw_end
            while k < bo:
                c = m[k]
                if c in "([{":
                    k = match_close(m, k) + 1
                    continue
                if c == "=" and m[k + 1] not in "=>" and m[k - 1] not in "=!<>":
                    pat_end = k
                    break
                k += 1
            if pat_end is None:
                continue
        refs = list(re.finditer(r"&\s*(mut\s+)?([a-z_][A-Za-z0-9_]*)\b", m[kw_end:pat_end]))
        refs = [r for r in refs if r.group(2) not in ("mut",)]
        if not refs:
            continue
        eds = []
        names = []
        for r in refs:
            if r.group(1):
                raise Unsupported("R7: `&mut x` pattern")
            a = kw_end + r.start()
            eds.append(Edit(a, a + 1, "", "R7"))
            names.append(r.group(2))
        # indentation of first body statement
        ins = bo + 1
        lets = "".join(" let %s = *%s;" % (x, x) for x in names)
        eds.append(Edit(ins, ins, lets, "R7"))
        return eds
    # (a2) match arms: `PAT(&x) => body` -> `PAT(x) => { let x = *x; body }`
    for mt in re.finditer(r"=>", m):
        arrow = mt.start()
        # pattern = from the previous `,` / `{` / `}` at the same level up to the arrow
        k = arrow - 1
        while k >= 0:
            c = m[k]
            if c in ")]":
                k = match_open(m, k) - 1
                continue
            if c in ",{}":
                break
            k -= 1
        ps = skip_ws(m, k + 1)
        pat = m[ps:arrow]
        if " if " in pat:
            pat = pat[:pat.index(" if ")]
        refs = [r for r in re.finditer(r"(?<![&A-Za-z0-9_])&\s*(mut\s+)?([a-z_][A-Za-z0-9_]*)\b(?!\s*::)", pat) if r.group(2) not in ("mut",)]
        if not refs:
            continue
        # must really be a match arm: enclosing block is headed by `match`
        ob = _enclosing_open(m, ps)
        if ob is None:
            continue
        # the block must be the body of a `match`: `... match SCRUTINEE {` (scrutinee without braces)
        q = ob - 1
        is_match = False
        while q >= 0:
            ch = m[q]
            if ch in ")]":
                q = match_open(m, q) - 1
                continue
            if ch in ";{}":
                break
            if m.startswith("match", q) and not (m[q + 5].isalnum() or m[q + 5] == "_") and (q == 0 or not (m[q - 1].isalnum() or m[q - 1] == "_")):
                is_match = True
                break
            q -= 1
        if not is_match:
            continue
        eds, names = [], []
        for r in refs:
            if r.group(1):
                raise Unsupported("R7: `&mut x` pattern in match arm")
            a = ps + r.start()
            eds.append(Edit(a, a + 1, "", "R7"))
            names.append(r.group(2))
        lets = "".join(" let %s = *%s;" % (x, x) for x in names)
        bs = skip_ws(m, arrow + 2)
        if m[bs] == "{":
            eds.append(Edit(bs + 1, bs + 1, lets, "R7"))
        else:
            be = _expr_end(m, bs)
            eds.append(Edit(bs, bs, "{" + lets + " ", "R7"))
            eds.append(Edit(be, be, " }", "R7"))
        return eds
    # (b) closure params
    for mt in re.finditer(r"\|\s*&\s*([a-z_][A-Za-z0-9_]*)\s*\|", m):
        j = skip_ws_back(m, mt.start())
        if j >= 0 and m[j] not in "(,=":
            continue
        name = mt.group(1)
        amp = m.index("&", mt.start())
        body_s = skip_ws(m, mt.end())
        eds = [Edit(amp, amp + 1, "", "R7")]
        if m[body_s] == "{":
            eds.append(Edit(body_s + 1, body_s + 1, " let %s = *%s;" % (name, name), "R7"))
        else:
            be = _expr_end(m, body_s)
            eds.append(Edit(body_s, body_s, "{ let %s = *%s; " % (name, name), "R7"))
            eds.append(Edit(be, be, " }", "R7"))
        return eds
    return []


def _expr_end(m, i):
    """end (exclusive) of the expression starting at i: stops at a top-level `,` `;` or closer."""
    k = i
    n = len(m)
    while k < n:
        c = m[k]
        if c in "([{":
            k = match_close(m, k) + 1
            continue
        if c in ",;)]}":
            # trim trailing whitespace
            e = k
            while e > i and m[e - 1].isspace():
                e -= 1
            return e
        k += 1
    return n


# ---------------------------------------------------------------- R8 closure wildcard parameter
def r8_closure_wild(text):
    m = mask(text)
    eds = []
    for mt in re.finditer(r"\|\s*_\s*\|", m):
        j = skip_ws_back(m, mt.start())
        if j >= 0 and m[j] not in "(,=" and not re.search(r"(?<![A-Za-z0-9_])move\s*$", m[:mt.start()]):
            continue
        u = m.index("_", mt.start())
        eds.append(Edit(u, u + 1, "_e", "R8"))
    return eds


# ---------------------------------------------------------------- R10 iterator hoisting
def r10_hoist(text, only=None):
    """`for P in E {` -> `let it_N_ = E; for P in it_N_ {` (one site per call).
    Only for loops listed by ordinal in `only` (1-based, among `for` keywords)."""
    m = mask(text)
    fors = [mt for mt in re.finditer(r"(?<![A-Za-z0-9_])for(?![A-Za-z0-9_])", m)]
    n = 0
    for mt in fors:
        # skip `for<'a>` HRTB and `impl X for Y`
        k = skip_ws(m, mt.end())
        try:
            bo = _cond_end(m, mt.end())
        except Unsupported:
            continue
        inm = re.search(r"\sin\s", m[mt.end():bo])
        if not inm:
            continue
        n += 1
        if only is not None and n not in only:
            continue
        es, ee = mt.end() + inm.end(), bo
        expr = text[es:ee].strip()
        if re.fullmatch(r"it_\d+_", expr):
            continue
        # ranges need no hoisting
        name = "it_%d_" % n
        j = skip_ws_back(m, mt.start())
        if j >= 0 and m[j] not in ";{}":
            raise Unsupported("R10: `for` not at statement start")
        ls = mt.start()
        indent = ""
        q = ls
        while q > 0 and text[q - 1] in " \t":
            q -= 1
        if q == 0 or text[q - 1] == "\n":
            indent = text[q:ls]
        e1 = Edit(ls, ls, "let %s = %s;\n%s" % (name, expr, indent), "R10")
        # replace expr keeping surrounding whitespace
        a = es + (len(text[es:ee]) - len(text[es:ee].lstrip()))
        b = a + len(expr)
        e2 = Edit(a, b, name, "R10")
        return [e1, e2]
    return []


# ---------------------------------------------------------------- R11 continue -> else
def r11_continue(text):
    """`if C { ...; continue; } REST` directly in a `for` body -> `if C { ... } else { REST }`.
    One site per call."""
    m = mask(text)
    for mt in re.finditer(r"(?<![A-Za-z0-9_])continue\s*;", m):
        c0 = mt.start()
        # enclosing block
        ob = _enclosing_open(m, c0)
        if ob is None:
            raise Unsupported("R11: continue outside block")
        cb = match_close(m, ob)
        # `continue;` must be the last statement of that block
        if m[mt.end():cb].strip() != "":
            raise Unsupported("R11: continue not last in its block")
        # let-else form: `let PAT = EXPR else { continue; }; REST` -> `if let PAT = EXPR { REST }` where REST runs to the
        # end of the enclosing block, and that block is the loop body or a tail `else { .. }` of it (R11 output)
        k0 = ob - 1
        while k0 >= 0 and m[k0] not in ";{}":
            if m[k0] in ")]":
                k0 = match_open(m, k0)
            k0 -= 1
        seg = m[k0 + 1:ob]
        lm = re.match(r"(\s*)let\s+(.*?)\s*=\s*(.*?)\s*else\s*$", seg, re.S)
        if lm and m[mt.start() - 1:mt.start()] != "" and m[ob + 1:mt.start()].strip() == "":
            let_s = k0 + 1 + len(lm.group(1))
            semi = skip_ws(m, cb + 1)
            if m[semi] != ";":
                raise Unsupported("R11: let-else without `;`")
            enc = _enclosing_open(m, let_s)
            blk = enc
            while True:
                hk = _block_header_kw(m, blk)
                if hk is not None and hk[0] in ("for", "while", "loop"):
                    break
                if hk is None or hk[0] != "else":
                    raise Unsupported("R11: let-else continue not in the tail of a loop body")
                bc = match_close(m, blk)
                par = _enclosing_open(m, blk)
                if par is None or m[bc + 1:match_close(m, par)].strip() != "":
                    raise Unsupported("R11: let-else continue not in the tail of a loop body")
                blk = par
            if hk[0] != "for":
                return []
            ec = match_close(m, enc)
            pat = text[k0 + 1 + lm.start(2):k0 + 1 + lm.end(2)]
            q = ec
            while q > 0 and text[q - 1] in " \t":
                q -= 1
            e_pos = k0 + 1 + lm.start(3)
            e_end = k0 + 1 + lm.end(3)
            return [Edit(let_s, let_s, "if ", "R11"),
                    Edit(e_end, semi + 1, " {", "R11"),
                    Edit(q, q, text[q:ec] + "    }\n", "R11")]
        # that block must be the body of an else-less `if` which is a statement of a for body
        hdr_if = _block_header_kw(m, ob)
        if hdr_if is None or hdr_if[0] != "if":
            raise Unsupported("R11: continue not inside a plain `if` block")
        if_start = hdr_if[1]
        nx = skip_ws(m, cb + 1)
        if m.startswith("else", nx):
            raise Unsupported("R11: if-with-else containing continue")
        pj = skip_ws_back(m, if_start)
        if pj >= 3 and m[pj - 3:pj + 1] == "else":
            raise Unsupported("R11: else-if containing continue")
        outer = _enclosing_open(m, if_start)
        hk = _block_header_kw(m, outer)
        if hk is None or hk[0] not in ("for", "while", "loop"):
            raise Unsupported("R11: `if .. continue` not directly in a loop body")
        if hk[0] != "for":
            return []  # continue in while/loop is supported by Verus
        oc = match_close(m, outer)
        # delete `continue;` (with its line) ; insert ` else {` after cb ; `}` before oc
        a, b = _stmt_span(text, m, mt.start(), mt.end())
        eds = [Edit(a, b, "", "R11"), Edit(cb + 1, cb + 1, " else {", "R11")]
        # closing brace before the loop's closing brace, on its own line
        q = oc
        while q > 0 and text[q - 1] in " \t":
            q -= 1
        eds.append(Edit(q, q, text[q:oc] + "    }\n", "R11"))
        return eds
    return []


def _enclosing_open(m, pos):
    depth = 0
    k = pos - 1
    while k >= 0:
        c = m[k]
        if c in ")]}":
            k = match_open(m, k) - 1
            continue
        if c == "{":
            return k
        if c in "([":
            # inside parens: keep going outward
            pass
        k -= 1
    return None


def _block_header_kw(m, ob):
    """For a block opening at ob, return (kw, kw_start) of its controlling keyword
    (if/for/while/loop/else/match-arm...) or None."""
    # walk back to the previous `;`, `{` or `}` at the same level
    k = ob - 1
    while k >= 0:
        c = m[k]
        if c in ")]":
            k = match_open(m, k) - 1
            continue
        if c == "}":
            # could be `if a {} else {` chain; treat as boundary
            break
        if c in ";{":
            break
        k -= 1
    seg_start = k + 1
    seg = m[seg_start:ob]
    mt = re.match(r"\s*(?:'\w+\s*:\s*)?(if|for|while|loop|else|match|unsafe)\b", seg)
    if not mt:
        return None
    return mt.group(1), seg_start + mt.start(1)


# ---------------------------------------------------------------- R12 constructor eta-expansion
def r12_ctor_eta(text):
    m = mask(text)
    eds = []
    for mt in re.finditer(r"[(,]\s*(Err|Ok|Some)\s*\)", m):
        a = m.index(mt.group(1), mt.start())
        eds.append(Edit(a, a + len(mt.group(1)), "|e_| %s(e_)" % mt.group(1), "R12"))
    return eds


# ---------------------------------------------------------------- R13 `for x in &E {`
def r13b_for_map(text, idents=()):
    """`for PAT in IDENT {` with IDENT listed in `for_map_idents` (an owned std map) -> `for PAT in into_pairs(IDENT) {`
    (`into_pairs` = assumed contract of the map's `into_iter`: every pair exactly once, unspecified order)."""
    m = mask(text)
    eds = []
    for idn in idents:
        for mt in re.finditer(r"(?<![A-Za-z0-9_])for\s[^;]*?\sin\s+(%s)\s*\{" % re.escape(idn), m):
            eds.append(Edit(mt.start(1), mt.end(1), "into_pairs(%s)" % idn, "R13"))
    return eds


def r13_for_ref(text, idents=()):
    """`for x in &E {` -> `for x in E.iter() {` ; also `for x in ident {` for the identifiers listed in
    unit.toml (`r13_idents`: parameters/locals of reference-to-collection type)."""
    m = mask(text)
    eds = []
    for idn in idents:
        for mt in re.finditer(r"(?<![A-Za-z0-9_])for\s[^{;]*?\sin\s+(%s)\s*\{" % re.escape(idn), m):
            e = mt.end(1)
            eds.append(Edit(e, e, ".iter()", "R13"))
    for mt in re.finditer(r"(?<![A-Za-z0-9_])for(?![A-Za-z0-9_])", m):
        try:
            bo = _cond_end(m, mt.end())
        except Unsupported:
            continue
        inm = re.search(r"\sin\s+&(?!mut\b)", m[mt.end():bo])
        if not inm:
            continue
        amp = mt.end() + inm.end() - 1
        e = bo
        while m[e - 1].isspace():
            e -= 1
        eds.append(Edit(amp, amp + 1, "", "R13"))
        eds.append(Edit(e, e, ".iter()", "R13"))
    return eds


# ---------------------------------------------------------------- R15 `for (i, x) in E.iter().enumerate() {`
def r15_enumerate(text):
    """`for (I, X) in E.iter().enumerate() { BODY }` ->
       `let en_N_ = &E; for I in 0..en_N_.len() { let X = &en_N_[I]; BODY }`  (one site per call);
       with a trailing `.skip(S)` the range starts at S (an empty range when S exceeds the length, as skip does).
    Identical for slices / Vecs (E is evaluated once, elements visited in index order); any other
    adapter chain stays unsupported (=> undecided)."""
    m = mask(text)
    n = 0
    for mt in re.finditer(r"(?<![A-Za-z0-9_])for(?![A-Za-z0-9_])", m):
        try:
            bo = _cond_end(m, mt.end())
        except Unsupported:
            continue
        inm = re.search(r"\sin\s", m[mt.end():bo])
        if not inm:
            continue
        n += 1
        pat_s, pat_e = mt.end(), mt.end() + inm.start()
        es, ee = mt.end() + inm.end(), bo
        expr = text[es:ee].strip()
        em = re.fullmatch(r"(.*?)\s*\.\s*iter\s*\(\s*\)\s*\.\s*enumerate\s*\(\s*\)(?:\s*\.\s*skip\s*\((.*)\))?", expr, re.S)
        if not em:
            continue
        lo = (em.group(2) or "0").strip()
        pat = text[pat_s:pat_e].strip()
        pm = re.fullmatch(r"\(\s*([a-z_][A-Za-z0-9_]*)\s*,\s*([a-z_][A-Za-z0-9_]*)\s*\)", pat)
        if not pm:
            raise Unsupported("R15: enumerate with a pattern other than (i, x)")
        j = skip_ws_back(m, mt.start())
        if j >= 0 and m[j] not in ";{}":
            raise Unsupported("R15: `for` not at statement start")
        name = "en_%d_" % n
        ls = mt.start()
        q = ls
        while q > 0 and text[q - 1] in " \t":
            q -= 1
        indent = text[q:ls] if (q == 0 or text[q - 1] == "\n") else ""
        base = em.group(1).strip()
        e1 = Edit(ls, ls, "let %s = &%s;\n%s" % (name, base, indent), "R15")
        e2 = Edit(pat_s, bo, " %s in %s..%s.len() " % (pm.group(1), lo, name), "R15")
        e3 = Edit(bo + 1, bo + 1, " let %s = &%s[%s];" % (pm.group(2), name, pm.group(1)), "R15")
        return [e1, e2, e3]
    return []


# ---------------------------------------------------------------- R16 `for P in it_N_ {` -> `while let Some(P) = it_N_.next() {`
def r16_for_to_while(text, only=None):
    """After R10 has hoisted the iterator: `let it_N_ = E; for P in it_N_ { B }` ->
    `let mut it_N_ = E; while let Some(P) = it_N_.next() { B }`. This is the definition of `for`
    (minus the IntoIterator call, which R10 already evaluated); needed because Verus rejects `continue`
    inside `for`. Applied only to the loops listed in `r16_only` (ordinals of hoisted iterators)."""
    m = mask(text)
    for mt in re.finditer(r"(?<![A-Za-z0-9_])for(?![A-Za-z0-9_])", m):
        try:
            bo = _cond_end(m, mt.end())
        except Unsupported:
            continue
        inm = re.search(r"\sin\s+(it_(\d+)_)\s*$", m[mt.end():bo])
        if not inm:
            continue
        num = int(inm.group(2))
        if only is not None and num not in only:
            continue
        name = inm.group(1)
        pat = text[mt.end():mt.end() + inm.start()].strip()
        decl = re.search(r"(?<![A-Za-z0-9_])let\s+%s\s*=" % re.escape(name), m[:mt.start()])
        if not decl:
            raise Unsupported("R16: hoisted iterator declaration not found")
        ds = decl.start() + m[decl.start():decl.end()].index(name)
        e1 = Edit(ds, ds, "mut ", "R16")
        e2 = Edit(mt.start(), bo, "while let Some(%s) = %s.next() " % (pat, name), "R16")
        return [e1, e2]
    return []


# ---------------------------------------------------------------- R17 fold over an owned Vec -> loop
def r17_fold(text):
    """`let P = RECV.into_iter().rev().fold(INIT, |A, X| BODY);` ->
    `let P = { let mut fold_src_ = RECV; let mut fold_acc_ = INIT; while let Some(X) = fold_src_.pop() { let A = fold_acc_; fold_acc_ = BODY; } fold_acc_ };`
    (reverse iteration of an owned Vec is popping from its end), and without `.rev()`
    `... for X in fold_src_ { let A = fold_acc_; fold_acc_ = BODY; } ...` (the definition of fold).
    Only the exact shape above is accepted: RECV must be the whole receiver of the let initialiser."""
    m = mask(text)
    for mt in re.finditer(r"\.\s*fold\s*\(", m):
        op = mt.end() - 1
        cp = match_close(m, op)
        # receiver chain backwards
        head = m[:mt.start()]
        ch = re.search(r"\.\s*into_iter\s*\(\s*\)\s*(\.\s*rev\s*\(\s*\)\s*)?$", head)
        if not ch:
            raise Unsupported("R17: fold receiver is not `.into_iter()[.rev()]`")
        rev = bool(ch.group(1))
        recv_end = ch.start()
        let = None
        for lm in re.finditer(r"(?<![A-Za-z0-9_])let\s+[^=;]+=\s*", m[:recv_end]):
            let = lm
        if not let or not re.fullmatch(r"[A-Za-z0-9_\.\s]+", m[let.end():recv_end]):
            raise Unsupported("R17: fold is not the whole initialiser of a let")
        recv_start = let.end()
        k = skip_ws(m, cp + 1)
        if m[k] != ";":
            raise Unsupported("R17: fold is not the whole initialiser of a let")
        init_s = skip_ws(m, op + 1)
        init_e = _expr_end(m, init_s)
        cm = re.match(r"\s*,\s*\|\s*([a-z_][A-Za-z0-9_]*)\s*,\s*([a-z_][A-Za-z0-9_]*)\s*\|\s*", m[init_e:cp])
        if not cm:
            raise Unsupported("R17: fold closure is not `|acc, x| expr`")
        acc, x = cm.group(1), cm.group(2)
        body_s = init_e + cm.end()
        body_e = cp
        while body_e > body_s and m[body_e - 1].isspace():
            body_e -= 1
        if m[body_e - 1] == ",":
            body_e -= 1
        loop = ("while let Some(%s) = fold_src_.pop()" % x) if rev else ("for %s in fold_src_" % x)
        return [Edit(recv_start, recv_start, "{ let mut fold_src_ = ", "R17"),
                Edit(recv_end, init_s, "; let mut fold_acc_ = ", "R17"),
                Edit(init_e, body_s, "; %s { let %s = fold_acc_; fold_acc_ = " % (loop, acc), "R17"),
                Edit(body_e, cp + 1, "; } fold_acc_ }", "R17")]
    return []


# ---------------------------------------------------------------- R18 abstract a listed let-initialiser
def _fn_body(m):
    mt = re.search(r"(?<![A-Za-z0-9_])fn\s+[A-Za-z_]", m)
    if not mt:
        return None
    k = mt.end()
    while k < len(m):
        if m[k] in "([":
            k = match_close(m, k) + 1
            continue
        if m[k] == "{":
            return k, match_close(m, k)
        if m[k] == ";":
            return None
        k += 1
    return None


def r28_name_temp_guard(text):
    """statement `RECV.lock().METHOD(ARGS);` -> `{ let mut tg_N_ = RECV.lock(); tg_N_.METHOD(ARGS); }`: the temporary guard
    gets a name (it is still dropped at the end of the statement), so that clauses can speak about the guarded value
    before and after the call."""
    m = mask(text)
    n = len(set(re.findall(r"(?<![A-Za-z0-9_])tg_(\d+)_", m)))
    for mt in re.finditer(r"\.\s*lock\s*\(\s*\)\s*\.\s*([a-z_][A-Za-z0-9_]*)\s*\(", m):
        op = mt.end() - 1
        cp = match_close(m, op)
        k = skip_ws(m, cp + 1)
        if m[k] != ";":
            continue
        dot = mt.start()
        try:
            rs = _recv_start(m, dot)
        except Unsupported:
            continue
        j = skip_ws_back(m, rs)
        if j >= 0 and m[j] not in ";{}":
            continue
        name = "tg_%d_" % (n + 1)
        lock_end = m.index(")", m.index("(", dot)) + 1
        return [Edit(rs, rs, "{ let mut %s = " % name, "R28"),
                Edit(lock_end, lock_end, "; %s" % name, "R28"),
                Edit(k + 1, k + 1, " }", "R28")]
    return []


def r27_extend_vec(text, idents=()):
    """`RECV.extend(V);` with V a plain identifier listed in `extend_vec_idents` (an owned Vec) ->
    `{ let mut ext_V_ = V; RECV.append(&mut ext_V_); }` — identical for Vec (extending by an owned Vec moves its elements
    to the end, in order); `Vec::append` has a vstd specification, the generic `Extend::extend` has none."""
    m = mask(text)
    for idn in idents:
        for mt in re.finditer(r"\.\s*extend\s*\(\s*%s\s*\)\s*;" % re.escape(idn), m):
            dot = mt.start()
            rs = _recv_start(m, dot)
            j = skip_ws_back(m, rs)
            if j >= 0 and m[j] not in ";{}":
                continue
            recv = text[rs:dot]
            return [Edit(rs, mt.end(), "{ let mut ext_%s_ = %s; %s.append(&mut ext_%s_); }" % (idn, idn, recv, idn), "R27")]
    return []


def r18b_abstract_closure_bodies(text, ordinals=()):
    """closure number N (1-based, in source order, as the splicer counts them) listed in `abstract_closure_bodies`:
    its block body `{ ... }` -> `{ abstracted_value() }` — the closure returns an ARBITRARY value of its result type and no
    longer captures anything. What is proved afterwards holds for every behaviour of that closure; nothing is proved
    about the closure body, and the dropped text is reported."""
    if not ordinals:
        return []
    from .splice import FnShape
    try:
        sh = FnShape(text)
    except Exception:
        return []
    if not sh.closures:
        return []          # contract-only stub of this function (body dropped): nothing to abstract
    for n in ordinals:
        if n < 1 or n > len(sh.closures):
            raise Unsupported("R18: closure %d not found" % n)
        cl = sh.closures[n - 1]
        if not cl["block"]:
            raise Unsupported("R18: closure %d has no block body" % n)
        a, b = cl["body_s"], cl["body_e"]
        if text[a:b].replace(" ", "") == "{abstracted_value()}":
            continue
        return [Edit(a + 1, b - 1, " abstracted_value() ", "R18")]
    return []


def r18_abstract_let(text, names=()):
    """`let NAME = EXPR;` (NAME listed in `abstract_lets`) -> `let NAME = abstracted_value();`: the initialiser
    (an iterator-adapter chain Verus cannot take) is replaced by a contract-less external function, i.e. by an
    ARBITRARY value of the inferred type. Everything proved afterwards holds for every value of NAME; nothing is
    proved about NAME itself, and the dropped expression is reported. Only side-effect-free initialisers may be
    listed (the listing is part of the trusted unit description)."""
    m = mask(text)
    for name in [n for n in names if n != "@tail"]:
        for mt in re.finditer(r"(?<![A-Za-z0-9_])let\s+%s\s*=\s*" % re.escape(name), m):
            s0 = mt.end()
            if m.startswith("abstracted_value()", s0):
                continue
            e = _expr_end(m, s0)
            if e >= len(m) or m[skip_ws(m, e)] != ";":
                raise Unsupported("R18: initialiser of `%s` does not end in `;`" % name)
            return [Edit(s0, e, "abstracted_value()", "R18")]
    if "@tail" in names:
        # the tail expression of the function body (its result) -> an arbitrary value of the return type
        fb = _fn_body(m)
        if fb:
            bo, bc = fb
            j = skip_ws_back(m, bc)
            if m[j] not in ";{":
                k = j
                while k > bo:
                    c = m[k]
                    if c in ")]":
                        k = match_open(m, k) - 1
                        continue
                    if c == "}":
                        nx = skip_ws(m, k + 1)
                        if m.startswith("else", nx) or m[nx] in ".?":
                            k = match_open(m, k) - 1
                            continue
                        break
                    if c in ";{":
                        break
                    k -= 1
                st = skip_ws(m, k + 1)
                if not m.startswith("abstracted_value()", st):
                    return [Edit(st, j + 1, "abstracted_value()", "R18")]
    return []


# ---------------------------------------------------------------- R19 `M.entry(K).or_insert(V);` as a statement
def r19_entry_or_insert(text):
    """`M.entry(K).or_insert(V);` with the result unused and K, M plain identifiers ->
    `if !M.contains_key(&K) { M.insert(K, V); }` (std HashMap: insert-if-absent; K is Copy in every listed site)."""
    m = mask(text)
    for mt in re.finditer(r"(?<![A-Za-z0-9_.])([a-z_][A-Za-z0-9_]*)\s*\.\s*entry\s*\(\s*([a-z_][A-Za-z0-9_]*)\s*\)\s*\.\s*or_insert\s*\(", m):
        op = mt.end() - 1
        cp = match_close(m, op)
        k = skip_ws(m, cp + 1)
        j = skip_ws_back(m, mt.start())
        if m[k] != ";" or (j >= 0 and m[j] not in ";{}"):
            continue
        mp, key = mt.group(1), mt.group(2)
        val = text[op + 1:cp]
        return [Edit(mt.start(), k + 1, "if !%s.contains_key(&%s) { %s.insert(%s, %s); }" % (mp, key, mp, key, val), "R19")]
    return []


# ---------------------------------------------------------------- R20 reverse scan of a slice suffix
def r20_rev_suffix(text):
    """`for X in E[A..].iter().rev() { B }` ->
    `let rv_N_ = &E; assert!(A <= rv_N_.len()); let mut rv_i_N_ = rv_N_.len(); while rv_i_N_ > A { rv_i_N_ -= 1; let X = &rv_N_[rv_i_N_]; B }`
    (the `assert!` keeps the panic of the range index when A exceeds the length; elements are visited from the
    last down to index A). B must not contain `continue` (it would skip nothing here, but keep the shape simple)."""
    m = mask(text)
    n = 0
    for mt in re.finditer(r"(?<![A-Za-z0-9_])for(?![A-Za-z0-9_])", m):
        try:
            bo = _cond_end(m, mt.end())
        except Unsupported:
            continue
        inm = re.search(r"\sin\s", m[mt.end():bo])
        if not inm:
            continue
        n += 1
        expr = text[mt.end() + inm.end():bo].strip()
        em = re.fullmatch(r"([A-Za-z_][A-Za-z0-9_\.]*)\s*\[\s*([A-Za-z_][A-Za-z0-9_\.]*)\s*\.\.\s*\]\s*\.\s*iter\s*\(\s*\)\s*\.\s*rev\s*\(\s*\)", expr)
        if not em:
            continue
        pat = text[mt.end():mt.end() + inm.start()].strip()
        if not re.fullmatch(r"[a-z_][A-Za-z0-9_]*", pat):
            raise Unsupported("R20: pattern other than a plain variable")
        bc = match_close(m, bo)
        if re.search(r"(?<![A-Za-z0-9_])continue(?![A-Za-z0-9_])", m[bo:bc]):
            raise Unsupported("R20: continue inside the loop body")
        j = skip_ws_back(m, mt.start())
        if j >= 0 and m[j] not in ";{}":
            raise Unsupported("R20: `for` not at statement start")
        rv, ri = "rv_%d_" % n, "rv_i_%d_" % n
        ls = mt.start()
        q = ls
        while q > 0 and text[q - 1] in " \t":
            q -= 1
        indent = text[q:ls] if (q == 0 or text[q - 1] == "\n") else ""
        base, lo = em.group(1), em.group(2)
        return [Edit(ls, bo, "let %s = &%s;\n%sassert!(%s <= %s.len());\n%slet mut %s = %s.len();\n%swhile %s > %s " % (rv, base, indent, lo, rv, indent, ri, rv, indent, ri, lo), "R20"),
                Edit(bo + 1, bo + 1, " %s -= 1; let %s = &%s[%s];" % (ri, pat, rv, ri), "R20")]
    return []


# ---------------------------------------------------------------- R21 unfold Option/Result::map / and_then (repair only)
def _recv_start(m, dot):
    """start of the receiver expression whose last `.` is at `dot`: SEG(.SEG)* with SEG = path-ident + postfix
    call/index groups + `?`, or one parenthesised group."""
    k = dot
    while True:
        j = skip_ws_back(m, k)
        if j < 0:
            raise Unsupported("R21: no receiver")
        while j >= 0 and m[j] in ")]?":
            if m[j] == "?":
                j -= 1
            else:
                j = match_open(m, j) - 1
        e = j + 1
        while j >= 0 and (m[j].isalnum() or m[j] == "_" or (m[j] == ":" and j > 0 and (m[j - 1] == ":" or m[j + 1] == ":"))):
            j -= 1
        start = j + 1
        if start == e:
            # no identifier: the segment must have been a parenthesised group
            if m[e] not in "([":
                raise Unsupported("R21: receiver shape")
            return e
        if m[start:e] in ("return", "let", "mut", "in", "if", "match", "else", "move", "break"):
            raise Unsupported("R21: receiver shape")
        pj = skip_ws_back(m, start)
        if pj >= 0 and m[pj] == "." and not (pj > 0 and m[pj - 1] == "."):
            k = pj
            continue
        return start


def unfold_combinator(text, off, variant):
    """`RECV.map(|x| BODY)` -> `(match RECV { Ok(x) => Ok(BODY), Err(uf_e_) => Err(uf_e_) })` (variant "Result") or
    `(match RECV { Some(x) => Some(BODY), None => None })` (variant "Option"); `and_then` likewise without the re-wrapping.
    These are the std definitions of the combinators. Used ONLY by the repair loop, for a closure Verus rejected
    because it captures a mutable reference, at the site Verus named. Returns (edits, closure start)."""
    m = mask(text)
    best = None
    for mt in re.finditer(r"\.\s*(map|and_then)\s*\(\s*(?:move\s+)?\|", m):
        op = m.index("(", mt.start())
        cp = match_close(m, op)
        if op <= off <= cp and (best is None or op > best[1]):
            best = (mt, op, cp)
    if best is None:
        raise Unsupported("R21: no map/and_then closure at the reported site")
    mt, op, cp = best
    bar1 = mt.end() - 1
    bar2 = m.index("|", bar1 + 1)
    param = text[bar1 + 1:bar2].strip()
    if not re.fullmatch(r"(mut\s+)?[a-z_][A-Za-z0-9_]*", param):
        raise Unsupported("R21: closure parameter is not a plain variable")
    body_s = skip_ws(m, bar2 + 1)
    body_e = cp
    while body_e > body_s and m[body_e - 1].isspace():
        body_e -= 1
    if m[body_e - 1] == ",":
        body_e -= 1
    dot = mt.start()
    rs = _recv_start(m, dot)
    which = mt.group(1)
    if variant == "Result":
        some, none_arm = "Ok", "Err(uf_e_) => Err(uf_e_)"
    else:
        some, none_arm = "Some", "None => None"
    if which == "map":
        head, tail = " { %s(%s) => %s(" % (some, param, some), "), %s })" % none_arm
    else:
        head, tail = " { %s(%s) => " % (some, param), ", %s })" % none_arm
    return [Edit(rs, rs, "(match ", "R21"), Edit(dot, body_s, head, "R21"), Edit(body_e, cp + 1, tail, "R21")], bar1


# ---------------------------------------------------------------- R22 filter_map over an owned map -> loop
def r22_filter_map(text, map_sources=()):
    """`M.into_iter().filter_map(|PAT| { BODY }).collect()` / `M.into_par_iter().map(|PAT| { BODY }).collect()` (M a plain
    identifier; tail expression or let initialiser) ->
    `{ let fm_f_ = |fm_p_| { let PAT = fm_p_; BODY }; let fm_src_ = SRC; let mut fm_out_ = Vec::new();
       for fm_x_ in fm_src_ { if let Some(fm_y_) = fm_f_(fm_x_) { fm_out_.push(fm_y_); } } fm_out_ }`   (filter_map)
       `... for fm_x_ in fm_src_ { fm_out_.push(fm_f_(fm_x_)); } ...`                                    (map)
    — the definition of (filter_)map + collect into a Vec. SRC is `into_pairs(M)` for identifiers listed in
    `r22_map_sources` (M is a std map: `into_pairs` is the assumed contract of its `into_iter`, every pair exactly once
    in an unspecified order) and `M` itself otherwise (M is a Vec). For rayon's `into_par_iter` this states the
    sequential meaning of an indexed parallel map + collect (input order kept; closure without shared mutable state)."""
    m = mask(text)
    for mt in re.finditer(r"(?<![A-Za-z0-9_.])([a-z_][A-Za-z0-9_]*)\s*\.\s*(into_iter|into_par_iter)\s*\(\s*\)\s*\.\s*(filter_map|map)\s*\(\s*\|", m):
        op = m.rindex("(", mt.start(), mt.end())
        cp = match_close(m, op)
        tail = re.match(r"\s*\.\s*collect\s*\(\s*\)", m[cp + 1:])
        if not tail:
            raise Unsupported("R22: (filter_)map not followed by collect()")
        end = cp + 1 + tail.end()
        bar1 = mt.end() - 1
        bar2 = m.index("|", bar1 + 1)
        pat = text[bar1 + 1:bar2].strip()
        bs = skip_ws(m, bar2 + 1)
        if m[bs] != "{":
            raise Unsupported("R22: closure body is not a block")
        be = match_close(m, bs)
        if m[be + 1:cp].strip() not in ("", ","):
            raise Unsupported("R22: closure shape")
        src = mt.group(1)
        srcx = ("into_pairs(%s)" % src) if src in map_sources else src
        if mt.group(3) == "filter_map":
            body = "if let Some(fm_y_) = fm_f_(fm_x_) { fm_out_.push(fm_y_); }"
        else:
            body = "fm_out_.push(fm_f_(fm_x_));"
        return [Edit(mt.start(), bs + 1, "{ let fm_f_ = |fm_p_| { let %s = fm_p_;" % pat, "R22"),
                Edit(be + 1, end, "; let fm_src_ = %s; let mut fm_out_ = Vec::new(); for fm_x_ in fm_src_ { %s } fm_out_ }" % (srcx, body), "R22")]
    return []


# ---------------------------------------------------------------- R24 closure with a tuple-pattern parameter
def r24_closure_tuple_param(text):
    """`|(a, b)| EXPR` -> `|cp_N_| { let (a, b) = cp_N_; EXPR }` (Verus: "only variables are supported here")."""
    m = mask(text)
    n = 0
    for mt in re.finditer(r"\|\s*(\((?:[^()|]|\([^()|]*\))*\))\s*\|", m):
        j = skip_ws_back(m, mt.start())
        if j >= 0 and m[j] not in "(,=" and not re.search(r"(?<![A-Za-z0-9_])move\s*$", m[:mt.start()]):
            continue
        n += 1
        pat = text[mt.start(1):mt.end(1)]
        name = "cp_%d_" % (len(set(re.findall(r"(?<![A-Za-z0-9_])cp_(\d+)_", m))) + 1)
        body_s = skip_ws(m, mt.end())
        eds = [Edit(mt.start(1), mt.end(1), name, "R24")]
        if m[body_s] == "{":
            eds.append(Edit(body_s + 1, body_s + 1, " let %s = %s;" % (pat, name), "R24"))
        else:
            be = _expr_end(m, body_s)
            eds.append(Edit(body_s, body_s, "{ let %s = %s; " % (pat, name), "R24"))
            eds.append(Edit(be, be, " }", "R24"))
        return eds
    return []


# ---------------------------------------------------------------- R25 collect a map into a Vec of pairs
def r25_collect_pairs(text):
    """`let X: Vec<_> = RECV.into_iter().collect();` -> `let X: Vec<_> = into_pairs(RECV);` (RECV a field path of a std
    map; `into_pairs` = assumed contract of its `into_iter`: every pair exactly once, unspecified order)."""
    m = mask(text)
    for mt in re.finditer(r"(?<![A-Za-z0-9_])let\s+[a-z_][A-Za-z0-9_]*\s*:\s*Vec\s*<\s*_\s*>\s*=\s*([A-Za-z_][A-Za-z0-9_\.]*)\s*\.\s*into_iter\s*\(\s*\)\s*\.\s*collect\s*\(\s*\)\s*;", m):
        a = mt.start(1)
        e = m.rindex(";", mt.start(), mt.end())
        return [Edit(a, e, "into_pairs(%s)" % text[mt.start(1):mt.end(1)], "R25")]
    return []


# ---------------------------------------------------------------- R23 reverse enumerate over copied elements
def r23_rev_enumerate(text):
    """`for (I, X) in E.iter().copied().enumerate().rev() { B }` ->
    `let cr_N_ = &E; let mut cr_i_N_ = cr_N_.len(); while cr_i_N_ > 0 { cr_i_N_ -= 1; let I = cr_i_N_; let X = cr_N_[cr_i_N_]; B }`
    (indices from the last down to 0, elements copied). B must not contain `continue`."""
    m = mask(text)
    n = 0
    for mt in re.finditer(r"(?<![A-Za-z0-9_])for(?![A-Za-z0-9_])", m):
        try:
            bo = _cond_end(m, mt.end())
        except Unsupported:
            continue
        inm = re.search(r"\sin\s", m[mt.end():bo])
        if not inm:
            continue
        n += 1
        expr = text[mt.end() + inm.end():bo].strip()
        em = re.fullmatch(r"([A-Za-z_][A-Za-z0-9_\.]*)\s*\.\s*iter\s*\(\s*\)\s*\.\s*copied\s*\(\s*\)\s*\.\s*enumerate\s*\(\s*\)\s*\.\s*rev\s*\(\s*\)", expr)
        if not em:
            continue
        pat = text[mt.end():mt.end() + inm.start()].strip()
        pm = re.fullmatch(r"\(\s*([a-z_][A-Za-z0-9_]*)\s*,\s*([a-z_][A-Za-z0-9_]*)\s*\)", pat)
        if not pm:
            raise Unsupported("R23: pattern other than (i, x)")
        bc = match_close(m, bo)
        if re.search(r"(?<![A-Za-z0-9_])continue(?![A-Za-z0-9_])", m[bo:bc]):
            raise Unsupported("R23: continue inside the loop body")
        j = skip_ws_back(m, mt.start())
        if j >= 0 and m[j] not in ";{}":
            raise Unsupported("R23: `for` not at statement start")
        cr, ci = "cr_%d_" % n, "cr_i_%d_" % n
        ls = mt.start()
        q = ls
        while q > 0 and text[q - 1] in " \t":
            q -= 1
        indent = text[q:ls] if (q == 0 or text[q - 1] == "\n") else ""
        return [Edit(ls, bo, "let %s = &%s;\n%slet mut %s = %s.len();\n%swhile %s > 0 " % (cr, em.group(1), indent, ci, cr, indent, ci), "R23"),
                Edit(bo + 1, bo + 1, " %s -= 1; let %s = %s; let %s = %s[%s];" % (ci, pm.group(1), ci, pm.group(2), cr, ci), "R23")]
    return []


# ---------------------------------------------------------------- R29 `impl IntoIterator<Item = T>` parameter -> `Vec<T>`
def r29_into_iter_param(text):
    """A parameter typed `impl IntoIterator<Item = T>` becomes `Vec<T>`: the function is verified for the finite
    sequence of items the argument yields (a `for` over an owned Vec is a `for` over `vec.into_iter()`). What is
    dropped: genericity over the iterator type, i.e. side effects and non-termination of a caller-supplied iterator's
    `next()` (it cannot touch `self`, which the function holds borrowed). Only parameter position (after `:`)."""
    m = mask(text)
    for mt in re.finditer(r":\s*(impl\s+IntoIterator\s*<\s*Item\s*=\s*)", m):
        lt = m.index("<", mt.start(1))
        depth, k = 0, lt
        while k < len(m):
            if m[k] == "<":
                depth += 1
            elif m[k] == ">" and m[k - 1] != "-":
                depth -= 1
                if depth == 0:
                    break
            k += 1
        else:
            raise Unsupported("R29: unbalanced generic arguments")
        return [Edit(mt.start(1), mt.end(1), "Vec<", "R29")]
    return []


# ---------------------------------------------------------------- R14 const fn
def r14_const_fn(text):
    m = mask(text)
    eds = []
    for mt in re.finditer(r"(?<![A-Za-z0-9_])const\s+(?=(?:unsafe\s+)?fn\b)", m):
        eds.append(Edit(mt.start(), mt.end(), "", "R14"))
    return eds


# ---------------------------------------------------------------- R15 matches! with binding-free patterns is fine; nothing to do


ITERATED = {"R6", "R7", "R10", "R11", "R15", "R16", "R17", "R18", "R19", "R20", "R22", "R23", "R24", "R25", "R27", "R28", "R29"}

TABLE = {
    "R1": r1_visibility,
    "R1p": r1p_all_public,
    "R2": r2_attrs,
    "R3": r3_assert_eq,
    "R4": r4_logging,
    "R5": r5_structural,
    "R6": r6_let_chain,
    "R7": r7_ref_patterns,
    "R8": r8_closure_wild,
    "R10": r10_hoist,
    "R11": r11_continue,
    "R12": r12_ctor_eta,
    "R13": r13_for_ref,
    "R14": r14_const_fn,
    "R15": r15_enumerate,
    "R16": r16_for_to_while,
    "R17": r17_fold,
    "R18": r18_abstract_let,
    "R19": r19_entry_or_insert,
    "R20": r20_rev_suffix,
    "R22": r22_filter_map,
    "R23": r23_rev_enumerate,
    "R24": r24_closure_tuple_param,
    "R25": r25_collect_pairs,
    "R27": r27_extend_vec,
    "R28": r28_name_temp_guard,
    "R29": r29_into_iter_param,
}
ORDER = ["R2", "R1", "R1p", "R14", "R4", "R3", "R5", "R6", "R15", "R13", "R11", "R7", "R8", "R12", "R17", "R18", "R19", "R20", "R25", "R22", "R24", "R23", "R27", "R28", "R29", "R10", "R16"]

EXEC_TOUCHING = {"R3", "R4", "R6", "R7", "R8", "R10", "R11", "R12", "R13", "R14", "R15", "R16", "R17", "R18", "R19", "R20", "R21", "R22", "R23", "R24", "R25", "R27", "R28", "R29"}


def apply_rewrites(text, enabled, opts=None):
    """Apply the enabled rewrites in ORDER. Returns (new_text, steps) with steps =
    [(rid, before_text, segs, after_text)] for reversal, and a human log of sites."""
    opts = opts or {}
    steps = []
    log = []
    cur = text
    for rid in ORDER:
        if rid not in enabled:
            continue
        fn = TABLE[rid]
        rounds = 0
        while True:
            rounds += 1
            if rounds > 200:
                raise Unsupported("%s does not converge" % rid)
            if rid == "R4":
                eds = fn(cur, opts.get("r4_statements", ()))
            elif rid == "R10":
                eds = fn(cur, opts.get("r10_only"))
            elif rid == "R13":
                eds = fn(cur, opts.get("r13_idents", ())) + r13b_for_map(cur, opts.get("for_map_idents", ()))
            elif rid == "R16":
                eds = fn(cur, opts.get("r16_only"))
            elif rid == "R18":
                eds = fn(cur, opts.get("abstract_lets", ())) or r18b_abstract_closure_bodies(cur, opts.get("abstract_closure_bodies", ()))
            elif rid == "R27":
                eds = fn(cur, opts.get("extend_vec_idents", ()))
            elif rid == "R22":
                eds = fn(cur, opts.get("r22_map_sources", ()))
            elif rid == "R2":
                eds = fn(cur, opts.get("drop_derives", ()))
            else:
                eds = fn(cur)
            if not eds:
                break
            new, segs = apply_edits(cur, eds)
            lo = min(e.start for e in eds)
            hi = max(e.end for e in eds)
            log.append({"rewrite": rid,
                        "before": cur[lo:hi] if hi - lo < 400 else cur[lo:lo + 200] + " ... " + cur[hi - 150:hi],
                        "edits": [{"at": e.start, "del": cur[e.start:e.end], "ins": e.new} for e in eds]})
            steps.append((rid, cur, segs, new))
            cur = new
            if rid not in ITERATED:
                break
    return cur, steps, log


def check_reversible(orig, final, steps):
    """Reverse every step; must give back `orig` byte for byte."""
    cur = final
    for rid, before, segs, after in reversed(steps):
        if cur != after:
            return False
        cur = revert(after, segs, lambda e, b=before: b[e.start:e.end])
        if cur != before:
            return False
    return cur == orig
