use vstd::prelude::*;
verus! {
#[derive(PartialEq, Eq, Structural, Clone, Copy)] pub struct U256(pub u64);
#[derive(PartialEq, Eq, Structural, Clone, Copy)] pub struct AccountInfo { pub balance: U256, pub nonce: u64, pub code_hash: u64 }
#[derive(PartialEq, Eq, Structural, Clone, Copy)]
pub enum AccountStatus { LoadedNotExisting, Loaded, LoadedEmptyEIP161, InMemoryChange, Changed, Destroyed, DestroyedChanged, DestroyedAgain }
impl AccountStatus {
    // shared, uninterpreted on both sides: no model of revm's status machine is needed
    pub uninterp spec fn sd(self) -> AccountStatus;
    pub uninterp spec fn te(self) -> AccountStatus;
    #[verifier::external_body] pub fn on_selfdestructed(&self) -> (r: AccountStatus) ensures r == self.sd() { unimplemented!() }
    #[verifier::external_body] pub fn on_touched_empty_post_eip161(&self) -> (r: AccountStatus) ensures r == self.te() { unimplemented!() }
}
#[derive(PartialEq, Eq, Structural, Clone, Copy)] pub struct Storage(pub u64);
impl Default for Storage { fn default() -> (r: Self) ensures r == Storage(0) { Storage(0) } }
pub struct HashMap;
impl HashMap { pub fn default() -> (r: Storage) ensures r == Storage(0) { Storage(0) } }
#[derive(PartialEq, Eq, Structural)]
pub struct TransitionAccount { pub info: Option<AccountInfo>, pub status: AccountStatus, pub previous_info: Option<AccountInfo>, pub previous_status: AccountStatus, pub storage: Storage, pub storage_was_destroyed: bool }
pub struct PlainAccount { pub info: AccountInfo, pub storage: Storage }


pub open spec fn c_destroy(pre_info: Option<AccountInfo>, pre_status: AccountStatus, post_status: AccountStatus, silent: bool) -> Option<TransitionAccount> {
    if silent { None } else { Some(TransitionAccount { info: None, status: post_status, previous_info: pre_info, previous_status: pre_status, storage: Storage(0), storage_was_destroyed: true }) }
}
pub open spec fn info_of(b: Option<PlainAccount>) -> Option<AccountInfo> { match b { Some(p) => Some(p.info), None => None } }
pub struct CacheAccountInfo { pub account: Option<AccountInfo>, pub status: AccountStatus }
impl CacheAccountInfo {
    pub fn selfdestruct(&mut self) -> (r: Option<TransitionAccount>) ensures final(self).account is None, final(self).status == old(self).status.sd(), r == c_destroy(old(self).account, old(self).status, old(self).status.sd(), old(self).status == AccountStatus::LoadedNotExisting), {
        // account should be None after selfdestruct so we can take it.
        let previous_info = self.account.take();
        let previous_status = self.status;

        self.status = self.status.on_selfdestructed();

        if previous_status == AccountStatus::LoadedNotExisting {
            None
        } else {
            Some(TransitionAccount {
                info: None,
                status: self.status,
                previous_info,
                previous_status,
                storage: Default::default(),
                storage_was_destroyed: true,
            })
        }
    }
    pub fn touch_empty_eip161(&mut self) -> (r: Option<TransitionAccount>) ensures final(self).account is None, final(self).status == old(self).status.te(), r == c_destroy(old(self).account, old(self).status, old(self).status.te(), old(self).status == AccountStatus::LoadedNotExisting || old(self).status == AccountStatus::Destroyed || old(self).status == AccountStatus::DestroyedAgain), {
        // Set account to None.
        let previous_info = self.account.take();
        let previous_status = self.status;

        // Set account state to Destroyed as we need to clear the storage if it exist.
        self.status = self.status.on_touched_empty_post_eip161();

        if matches!(
            previous_status,
            AccountStatus::LoadedNotExisting |
                AccountStatus::Destroyed |
                AccountStatus::DestroyedAgain
        ) {
            None
        } else {
            Some(TransitionAccount {
                info: None,
                status: self.status,
                previous_info,
                previous_status,
                storage: Default::default(),
                storage_was_destroyed: true,
            })
        }
    }
}
pub struct CacheAccount { pub account: Option<PlainAccount>, pub status: AccountStatus }
impl CacheAccount {
    pub fn selfdestruct(&mut self) -> (r: Option<TransitionAccount>) ensures final(self).account is None, final(self).status == old(self).status.sd(), r == c_destroy(info_of(old(self).account), old(self).status, old(self).status.sd(), old(self).status == AccountStatus::LoadedNotExisting), {
        // Account should be None after selfdestruct so we can take it.
        let previous_info = self.account.take().map(|a: PlainAccount| -> (i: AccountInfo) ensures i == a.info { a.info });
        let previous_status = self.status;

        self.status = self.status.on_selfdestructed();

        if previous_status == AccountStatus::LoadedNotExisting {
            None
        } else {
            Some(TransitionAccount {
                info: None,
                status: self.status,
                previous_info,
                previous_status,
                storage: HashMap::default(),
                storage_was_destroyed: true,
            })
        }
    }
    pub fn touch_empty_eip161(&mut self) -> (r: Option<TransitionAccount>) ensures final(self).account is None, final(self).status == old(self).status.te(), r == c_destroy(info_of(old(self).account), old(self).status, old(self).status.te(), old(self).status == AccountStatus::LoadedNotExisting || old(self).status == AccountStatus::Destroyed || old(self).status == AccountStatus::DestroyedAgain), {
        let previous_status = self.status;

        // Set account to None.
        let previous_info = self.account.take().map(|acc: PlainAccount| -> (i: AccountInfo) ensures i == acc.info { acc.info });

        // Set account state to Destroyed as we need to clear the storage if it exist.
        self.status = self.status.on_touched_empty_post_eip161();

        if matches!(
            previous_status,
            AccountStatus::LoadedNotExisting
                | AccountStatus::Destroyed
                | AccountStatus::DestroyedAgain
        ) {
            None
        } else {
            Some(TransitionAccount {
                info: None,
                status: self.status,
                previous_info,
                previous_status,
                storage: HashMap::default(),
                storage_was_destroyed: true,
            })
        }
    }
}
pub open spec fn related(a: CacheAccountInfo, b: CacheAccount) -> bool {
    a.status == b.status && a.account == (match b.account { Some(p) => Some(p.info), None => None })
}
fn equiv_selfdestruct(a: CacheAccountInfo, b: CacheAccount) requires related(a, b) {
    let mut a = a; let mut b = b;
    let ta = a.selfdestruct();
    let tb = b.selfdestruct();
    assert(ta == tb && related(a, b));
}
fn equiv_touch_empty(a: CacheAccountInfo, b: CacheAccount) requires related(a, b) {
    let mut a = a; let mut b = b;
    let ta = a.touch_empty_eip161();
    let tb = b.touch_empty_eip161();
    assert(ta == tb && related(a, b));
}
} // verus!
fn main() {}
