use vstd::prelude::*;
verus! {
pub type TxId = usize;
#[derive(PartialEq, Eq, Structural, Clone, Copy)] pub struct U256(pub u64);
impl U256 { pub const ZERO: U256 = U256(0); }

/// TRUSTED: std slice::partition_point on a Vec (deref to slice): requires the predicate to be
/// partitioned over the slice, ensures the partition index.
pub assume_specification<T, P: FnMut(&T) -> bool>[ <[T]>::partition_point ](v: &[T], pred: P) -> (r: usize)
    requires forall|x: &T| pred.requires((x,)),
    ensures r <= v@.len(),
        forall|k: int| #![trigger v@[k]] 0 <= k <= v@.len()
            && (forall|i: int, b: bool| 0 <= i < k && #[trigger] pred.ensures((&v@[i],), b) ==> b)
            && (forall|i: int, b: bool| k <= i < v@.len() && #[trigger] pred.ensures((&v@[i],), b) ==> !b)
            ==> r == k;

pub struct AccountReserveSchedule { pub txids: Vec<TxId>, pub cost_from: Vec<U256> }
impl AccountReserveSchedule {
    pub open spec fn wf(&self) -> bool {
        self.txids.len() == self.cost_from.len() && forall|i: int, j: int| 0 <= i < j < self.txids.len() ==> self.txids@[i] < self.txids@[j]
    }
    fn required_after(&self, txid: TxId) -> (r: U256) 
        requires self.wf(),
        ensures
            // first own transaction strictly after txid decides; none => zero
            (forall|j: int| 0 <= j < self.txids.len() ==> self.txids@[j] <= txid) ==> r == U256(0),
            forall|j: int| 0 <= j < self.txids.len() && self.txids@[j] > txid && (forall|i: int| 0 <= i < j ==> self.txids@[i] <= txid) ==> r == self.cost_from@[j],
    {
        proof { let _t = self.txids@[self.txids.len() as int]; }
        match self.txids.partition_point(|candidate: &TxId| -> (b: bool) ensures b == (*candidate <= txid) { *candidate <= txid }) {
            index if index < self.cost_from.len() => self.cost_from[index],
            _ => U256::ZERO,
        }
    }
}
} // verus!
fn main() {}
