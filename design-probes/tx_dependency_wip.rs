use vstd::prelude::*;
use std::ops::{Deref, DerefMut};
use std::collections::HashSet;
verus! {
pub type TxId = usize;
pub enum Ordering { Relaxed, Release, Acquire, AcqRel, SeqCst }
#[verifier::external_body] pub struct AtomicUsize { p: u8 }
impl AtomicUsize {
    /// a fetch_min(v') with v' <= v has been issued by this call (re-offer issued)
    pub uninterp spec fn rewound_le(&self, v: usize) -> bool;
    #[verifier::external_body] pub fn load(&self, o: Ordering) -> usize { unimplemented!() }
    #[verifier::external_body] pub fn fetch_add(&self, d: usize, o: Ordering) -> usize { unimplemented!() }
    #[verifier::external_body] pub fn fetch_min(&self, v: usize, o: Ordering) -> usize ensures self.rewound_le(v) { unimplemented!() }
}
#[verifier::external_body] #[verifier::reject_recursive_types(T)] pub struct Mutex<T> { x: core::marker::PhantomData<T> }
#[verifier::external_body] #[verifier::reject_recursive_types(T)] pub struct MutexGuard<'a, T> { x: core::marker::PhantomData<&'a T> }
impl<'a, T> MutexGuard<'a, T> { pub uninterp spec fn view(&self) -> T; }
impl<T> Mutex<T> { #[verifier::external_body] pub fn lock(&self) -> (g: MutexGuard<'_, T>) { unimplemented!() } }
impl<'a, T> Deref for MutexGuard<'a, T> { type Target = T; #[verifier::external_body] fn deref(&self) -> (r: &T) ensures *r == self@ { unimplemented!() } }
impl<'a, T> DerefMut for MutexGuard<'a, T> { #[verifier::external_body] fn deref_mut(&mut self) -> (r: &mut T) ensures *r == old(self)@, *final(r) == final(self)@ { unimplemented!() } }

pub struct DependentState { pub onboard: bool, pub dependency: Option<TxId> }
pub struct TxDependency {
    pub num_txs: usize,
    pub dependent_state: Vec<Mutex<DependentState>>,
    pub affect_txs: Vec<Mutex<HashSet<TxId>>>,
    pub index: AtomicUsize,
}
impl TxDependency {
    pub open spec fn wf(&self) -> bool { self.dependent_state.len() == self.num_txs && self.affect_txs.len() == self.num_txs }
    #[verifier::loop_isolation(false)]
    pub fn remove(&self, txid: TxId, pop_next: bool) -> (r: Option<TxId>) 
        requires self.wf(), txid < self.num_txs, txid + 1 < usize::MAX,
        ensures r matches Some(t) ==> pop_next && t == txid + 1,
    {
        let mut next = None;
        let mut affects = self.affect_txs[txid].lock();
        if affects.is_empty() {
            return next;
        }
        for tx in affects.iter()
            invariant self.wf(), txid < self.num_txs, forall|t: TxId| affects@@.contains(t) ==> t < self.num_txs,
        { let tx = *tx;
            let mut dependent = self.dependent_state[tx].lock();
            let ghost pre = dependent@;
            if dependent.dependency == Some(txid) {
                dependent.dependency = None;
                if dependent.onboard {
                    if pop_next && tx == txid + 1 && self.index.load(Ordering::Relaxed) > tx {
                        dependent.onboard = false;
                        next = Some(tx);
                    } else {
                        self.index.fetch_min(tx, Ordering::Relaxed);
                    }
                }
            }
            proof {
                assert(pre.dependency != Some(txid) ==> dependent@ == pre);
                assert(pre.dependency == Some(txid) ==> dependent@.dependency is None);
                assert(pre.dependency == Some(txid) && pre.onboard ==> (next == Some(tx) && !dependent@.onboard) || (self.index.rewound_le(tx) && dependent@.onboard));
            }
        }
        affects.clear();
        next
    }
    pub fn commit(&self, txid: TxId) 
        requires self.wf(), txid + 1 < usize::MAX,
    {
        let next = txid + 1;
        if next < self.num_txs {
            let mut state = self.dependent_state[next].lock();
            let ghost pre = state@;
            if state.onboard {
                state.dependency = None;
                self.index.fetch_min(next, Ordering::Relaxed);
            }
            proof { assert(pre.onboard ==> state@.dependency is None && state@.onboard && self.index.rewound_le(next)); assert(!pre.onboard ==> state@ == pre); }
        }
    }
}
} // verus!
fn main() {}
