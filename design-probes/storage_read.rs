use vstd::prelude::*;
use std::ops::Deref;
verus! {

pub type TxId = usize;
#[derive(PartialEq, Eq, Structural, Clone, Copy)] pub struct Address(pub u64);
#[derive(PartialEq, Eq, Structural, Clone, Copy)] pub struct B256(pub u64);
#[derive(PartialEq, Eq, Structural, Clone, Copy)] pub struct U256(pub u64);
#[derive(PartialEq, Eq, Structural, Clone, Copy)] pub struct Bytecode(pub u64);
impl Bytecode { pub fn clone(&self) -> (r: Self) ensures r == *self { *self } }

#[derive(Clone, PartialEq, Eq, Structural)]
pub struct TxVersion { pub txid: TxId, pub incarnation: usize }
impl TxVersion { pub fn new(txid: TxId, incarnation: usize) -> (r: Self) ensures r.txid == txid, r.incarnation == incarnation { Self { txid, incarnation } } }
pub enum ReadVersion { MvMemory(TxVersion), Storage }
#[derive(Clone, Copy)]
pub enum MemoryValue { Code(Bytecode), Storage(U256), StorageReset }
pub struct MemoryEntry { pub incarnation: usize, pub data: MemoryValue, pub estimate: bool }
#[derive(Clone, PartialEq, Eq, Structural)]
pub enum LocationAndType { Basic(Address), Storage(Address, U256), StorageReset(Address), Code(Address) }

// ---- trusted stand-ins: BTreeMap / DashMap / maps ----
#[verifier::external_body] #[verifier::reject_recursive_types(V)]
pub struct BTreeMap<V> { p: core::marker::PhantomData<V> }
#[verifier::external_body] #[verifier::reject_recursive_types(V)]
pub struct BRange<'a, V> { p: core::marker::PhantomData<&'a V> }
impl<V> BTreeMap<V> {
    pub uninterp spec fn view(&self) -> Map<TxId, V>;
    #[verifier::external_body]
    pub fn range(&self, r: core::ops::RangeTo<TxId>) -> (it: BRange<'_, V>) ensures it.map() == self@, it.bound() == r.end { unimplemented!() }
}
pub open spec fn latest_before<V>(m: Map<TxId, V>, b: TxId) -> Option<TxId> {
    if exists|k: TxId| m.contains_key(k) && k < b {
        Some(choose|k: TxId| m.contains_key(k) && k < b && forall|j: TxId| m.contains_key(j) && j < b ==> j <= k)
    } else { None }
}
impl<'a, V> BRange<'a, V> {
    pub uninterp spec fn map(&self) -> Map<TxId, V>;
    pub uninterp spec fn bound(&self) -> TxId;
    #[verifier::external_body]
    pub fn next_back(&mut self) -> (r: Option<(&'a TxId, &'a V)>)
        ensures match latest_before(old(self).map(), old(self).bound()) {
            Some(k) => r matches Some((kk, vv)) && *kk == k && *vv == old(self).map()[k],
            None => r is None }
    { unimplemented!() }
}
#[verifier::external_body] pub struct MVMemory { p: u8 }
#[verifier::external_body] #[verifier::reject_recursive_types(V)] pub struct Ref<'a, V> { p: core::marker::PhantomData<&'a V> }
impl<'a, V> Ref<'a, V> { pub uninterp spec fn view(&self) -> V; }
impl<'a, V> Deref for Ref<'a, V> { type Target = V;
    #[verifier::external_body] fn deref(&self) -> (r: &V) ensures *r == self@ { unimplemented!() } }
impl MVMemory {
    pub uninterp spec fn view(&self) -> Map<LocationAndType, BTreeMap<MemoryEntry>>;
    #[verifier::external_body]
    pub fn get(&self, k: &LocationAndType) -> (r: Option<Ref<'_, BTreeMap<MemoryEntry>>>)
        ensures match r { Some(x) => self@.contains_key(*k) && x@ == self@[*k], None => !self@.contains_key(*k) } { unimplemented!() }
}
#[verifier::external_body] pub struct ReadSet { p: u8 }
impl ReadSet { pub uninterp spec fn view(&self) -> Map<LocationAndType, ReadVersion>;
    #[verifier::external_body] pub fn insert(&mut self, k: LocationAndType, v: ReadVersion) -> (o: Option<ReadVersion>) ensures final(self)@ == old(self)@.insert(k, v) { unimplemented!() } }
#[verifier::external_body] pub struct TxSet { p: u8 }
impl TxSet { pub uninterp spec fn view(&self) -> Set<TxId>;
    #[verifier::external_body] pub fn insert(&mut self, k: TxId) -> (b: bool) ensures final(self)@ == old(self)@.insert(k) { unimplemented!() } }

pub trait DatabaseRef { type Error;
    spec fn code_spec(&self, h: B256) -> Result<Bytecode, Self::Error>;
    fn code_by_hash_ref(&self, h: B256) -> (r: Result<Bytecode, Self::Error>) ensures r == self.code_spec(h);
    spec fn storage_spec(&self, a: Address, i: U256) -> Result<U256, Self::Error>;
    fn storage_ref(&self, a: Address, i: U256) -> (r: Result<U256, Self::Error>) ensures r == self.storage_spec(a, i);
}
pub assume_specification<T, F: FnOnce(T) -> bool>[ Option::<T>::is_none_or ](o: Option<T>, f: F) -> (r: bool)
    requires o matches Some(x) ==> f.requires((x,)),
    ensures o is None ==> r, o matches Some(x) ==> f.ensures((x,), r);
impl U256 { pub const ZERO: U256 = U256(0); }

pub open spec fn latest_kind(mv: Map<LocationAndType, BTreeMap<MemoryEntry>>, loc: LocationAndType, txid: TxId, want_reset: bool) -> Option<TxId> {
    if mv.contains_key(loc) {
        match latest_before(mv[loc]@, txid) {
            Some(k) => if (want_reset && mv[loc]@[k].data is StorageReset) || (!want_reset && mv[loc]@[k].data is Storage) { Some(k) } else { None },
            None => None,
        }
    } else { None }
}
pub open spec fn ver_of(mv: Map<LocationAndType, BTreeMap<MemoryEntry>>, loc: LocationAndType, w: Option<TxId>) -> ReadVersion {
    match w { Some(k) => ReadVersion::MvMemory(TxVersion { txid: k, incarnation: mv[loc]@[k].incarnation }), None => ReadVersion::Storage }
}
pub open spec fn est(mv: Map<LocationAndType, BTreeMap<MemoryEntry>>, loc: LocationAndType, w: Option<TxId>) -> Set<TxId> {
    match w { Some(k) => if mv[loc]@[k].estimate { set![k] } else { Set::empty() }, None => Set::empty() }
}




#[verifier::reject_recursive_types(DB)]
pub struct IncarnationDb<'a, DB: DatabaseRef> {
    pub backing_db: &'a DB,
    pub mv_memory: &'a MVMemory,
    pub read_set: ReadSet,
    pub version: TxVersion,
    pub blocking_txs: TxSet,
}

pub open spec fn code_writer(mv: Map<LocationAndType, BTreeMap<MemoryEntry>>, a: Address, txid: TxId) -> Option<TxId> {
    let loc = LocationAndType::Code(a);
    if mv.contains_key(loc) {
        match latest_before(mv[loc]@, txid) {
            Some(k) => if mv[loc]@[k].data is Code { Some(k) } else { None },
            None => None,
        }
    } else { None }
}

impl<'a, DB: DatabaseRef> IncarnationDb<'a, DB> {
    fn code_by_address(
        &mut self,
        address: Address,
        code_hash: B256,
    ) -> (r: Result<Bytecode, DB::Error>)
        ensures
            final(self).version == old(self).version,
            match code_writer(old(self).mv_memory@, address, old(self).version.txid) {
                Some(k) => {
                    let e = old(self).mv_memory@[LocationAndType::Code(address)]@[k];
                    &&& r == Ok::<Bytecode, DB::Error>(e.data->Code_0)
                    &&& final(self).read_set@ == old(self).read_set@.insert(LocationAndType::Code(address), ReadVersion::MvMemory(TxVersion { txid: k, incarnation: e.incarnation }))
                    &&& final(self).blocking_txs@ == (if e.estimate { old(self).blocking_txs@.insert(k) } else { old(self).blocking_txs@ })
                },
                None => {
                    &&& r == old(self).backing_db.code_spec(code_hash)
                    &&& final(self).blocking_txs@ == old(self).blocking_txs@
                    &&& r is Ok ==> final(self).read_set@ == old(self).read_set@.insert(LocationAndType::Code(address), ReadVersion::Storage)
                    &&& r is Err ==> final(self).read_set@ == old(self).read_set@
                },
            },
    {
        let mut result = None;
        let mut read_version = ReadVersion::Storage;
        let location = LocationAndType::Code(address);
        // 1. read from multi-version memory
        if let Some(written_transactions) = self.mv_memory.get(&location) {
            if let Some((txid, entry)) =
                written_transactions.range(..self.version.txid).next_back() { let txid = *txid;
            if let MemoryValue::Code(code) = &entry.data
        {
            result = Some(code.clone());
            if entry.estimate {
                self.blocking_txs.insert(txid);
            }
            read_version = ReadVersion::MvMemory(TxVersion::new(txid, entry.incarnation));
        }}}
        // 2. read from database
        if result.is_none() {
            let byte_code = self.backing_db.code_by_hash_ref(code_hash)?;
            result = Some(byte_code);
        }

        self.read_set.insert(location, read_version);
        Ok(result.expect("No bytecode"))
    }

    fn storage(&mut self, address: Address, index: U256) -> (r: Result<U256, DB::Error>)
        ensures ({
            let mv = old(self).mv_memory@;
            let t = old(self).version.txid;
            let rl = LocationAndType::StorageReset(address);
            let sl = LocationAndType::Storage(address, index);
            let rw = latest_kind(mv, rl, t, true);
            let sw = latest_kind(mv, sl, t, false);
            &&& final(self).version == old(self).version
            &&& final(self).read_set@ == old(self).read_set@.insert(rl, ver_of(mv, rl, rw)).insert(sl, ver_of(mv, sl, sw))
            &&& final(self).blocking_txs@ == old(self).blocking_txs@ + est(mv, rl, rw) + est(mv, sl, sw)
            &&& r == (match (sw, rw) {
                    (Some(s), None) => Ok::<U256, DB::Error>(mv[sl]@[s].data->Storage_0),
                    (Some(s), Some(x)) => if s >= x { Ok::<U256, DB::Error>(mv[sl]@[s].data->Storage_0) } else { Ok::<U256, DB::Error>(U256(0)) },
                    (None, Some(x)) => Ok::<U256, DB::Error>(U256(0)),
                    (None, None) => old(self).backing_db.storage_spec(address, index),
                })
        }),
    {
        let reset_location = LocationAndType::StorageReset(address);
        let mut reset_version = ReadVersion::Storage;
        let mut reset_txid = None;
        if let Some(writes) = self.mv_memory.get(&reset_location) {
            if let Some((txid, entry)) = writes.range(..self.version.txid).next_back() { let txid = *txid;
            if matches!(entry.data, MemoryValue::StorageReset)
        {
            reset_txid = Some(txid);
            if entry.estimate {
                self.blocking_txs.insert(txid);
            }
            reset_version = ReadVersion::MvMemory(TxVersion::new(txid, entry.incarnation));
        }}}
        self.read_set.insert(reset_location, reset_version);

        let location = LocationAndType::Storage(address, index);
        let mut slot_version = ReadVersion::Storage;
        let mut slot_write = None;
        if let Some(writes) = self.mv_memory.get(&location) {
            if let Some((txid, entry)) = writes.range(..self.version.txid).next_back() { let txid = *txid;
            if let MemoryValue::Storage(value) = entry.data
        {
            if entry.estimate {
                self.blocking_txs.insert(txid);
            }
            slot_version = ReadVersion::MvMemory(TxVersion::new(txid, entry.incarnation));
            slot_write = Some((txid, value));
        }}}
        self.read_set.insert(location, slot_version);

        if let Some((slot_txid, value)) = slot_write {
            if reset_txid.is_none_or(|reset_txid: TxId| -> (b: bool) ensures b == (slot_txid >= reset_txid) { slot_txid >= reset_txid })
        {
            return Ok(value);
        }}
        if reset_txid.is_some() {
            return Ok(U256::ZERO);
        }
        self.backing_db.storage_ref(address, index)
    }
}

} // verus!
fn main() {}
