use vstd::prelude::*;
verus! {
#[derive(PartialEq, Eq, Structural, Clone, Copy)]
pub enum SpecId { FRONTIER, LONDON, CANCUN, PRAGUE, OSAKA }
impl SpecId {
    pub uninterp spec fn enabled(self, o: SpecId) -> bool;
    #[verifier::external_body] pub fn is_enabled_in(self, o: SpecId) -> (b: bool) ensures b == self.enabled(o) { unimplemented!() }
}
pub mod revm_primitives { pub mod hardfork { pub use crate::SpecId; } }
#[derive(Clone, Copy, Debug, Default, PartialEq, Eq, Structural)]
pub struct DelegatedSafetyConfig {
    pub forbid_delegated_create: bool,
    pub reserve_delegated_balance: bool,
}
impl DelegatedSafetyConfig {
    pub fn disabled() -> (r: Self)  ensures !r.forbid_delegated_create && !r.reserve_delegated_balance {
        Self { forbid_delegated_create: false, reserve_delegated_balance: false }
    }
    pub fn for_spec(self, spec: revm_primitives::hardfork::SpecId) -> (r: Self) 
        ensures r == (if spec.enabled(revm_primitives::hardfork::SpecId::PRAGUE) { self } else { DelegatedSafetyConfig { forbid_delegated_create: false, reserve_delegated_balance: false } })
    {
        if spec.is_enabled_in(revm_primitives::hardfork::SpecId::PRAGUE) {
            self
        } else {
            Self::disabled()
        }
    }
}

// ---- U08 ----
#[derive(PartialEq, Eq, Structural, Clone, Copy)] pub struct U256(pub nat_u256);
pub type nat_u256 = u128; // stand-in carrier for the probe only
impl U256 {
    pub open spec fn v(self) -> nat { self.0 as nat }
    #[verifier::external_body] pub fn checked_add(self, o: U256) -> (r: Option<U256>)
        ensures (self.v() + o.v() <= u128::MAX) ==> r == Some(U256((self.0 + o.0) as u128)), (self.v() + o.v() > u128::MAX) ==> r is None { unimplemented!() }
}
#[derive(PartialEq, Eq, Structural, Clone, Copy)] pub struct AccountInfo { pub balance: U256, pub nonce: u64, pub code_hash: u64 }
impl AccountInfo { pub open spec fn dflt() -> AccountInfo { AccountInfo { balance: U256(0), nonce: 0, code_hash: 0 } } }
impl Default for AccountInfo { fn default() -> (r: Self) ensures r == AccountInfo::dflt() { AccountInfo { balance: U256(0), nonce: 0, code_hash: 0 } } }

#[derive(Clone, Copy)] pub struct DeferredBeneficiaryReward(pub U256);
impl DeferredBeneficiaryReward {
    pub fn apply_to(self, account: Option<AccountInfo>) -> (r: AccountInfo) 
        ensures ({ let a0 = match account { Some(a) => a, None => AccountInfo::dflt() };
            r.nonce == a0.nonce && r.code_hash == a0.code_hash &&
            r.balance == (if a0.balance.v() + self.0.v() <= u128::MAX { U256((a0.balance.0 + self.0.0) as u128) } else { a0.balance }) })
    {
        let mut account = account.unwrap_or_default();
        if let Some(balance) = account.balance.checked_add(self.0) {
            account.balance = balance;
        }
        account
    }
}

// ---- U11 ----
#[verifier::external_body] pub struct Account { p: u8 }
impl Account {
    pub uninterp spec fn touched(&self) -> bool; pub uninterp spec fn sd(&self) -> bool; pub uninterp spec fn created(&self) -> bool; pub uninterp spec fn empty(&self) -> bool;
    pub uninterp spec fn info_spec(&self) -> AccountInfo;
    #[verifier::external_body] pub fn is_touched(&self) -> (b: bool) ensures b == self.touched() { unimplemented!() }
    #[verifier::external_body] pub fn is_selfdestructed(&self) -> (b: bool) ensures b == self.sd() { unimplemented!() }
    #[verifier::external_body] pub fn is_created(&self) -> (b: bool) ensures b == self.created() { unimplemented!() }
    #[verifier::external_body] pub fn is_empty(&self) -> (b: bool) ensures b == self.empty() { unimplemented!() }
}
} // verus!
fn main() {}
