use vstd::prelude::*;
verus! {
#[derive(PartialEq, Eq, Structural, Clone, Copy)] pub struct Address(pub u64);
#[derive(PartialEq, Eq, Structural, Clone, Copy)] pub struct U256(pub u64);
#[derive(PartialEq, Eq, Structural, Clone, Copy)] pub struct SStoreResult(pub u64);
#[derive(PartialEq, Eq, Structural, Clone, Copy)] pub struct StateLoad<T> { pub data: T, pub is_cold: bool }
#[derive(PartialEq, Eq, Structural, Clone, Copy)] pub struct EvmInternalsError(pub u64);
#[derive(PartialEq, Eq, Structural, Clone, Copy)] pub struct PrecompileHalt(pub u64);
impl PrecompileHalt { #[verifier::external_body] pub fn other_static(s: &'static str) -> PrecompileHalt { unimplemented!() } }
#[derive(PartialEq, Eq, Structural, Clone, Copy)] pub struct PrecompileError(pub u64);
#[derive(PartialEq, Eq, Structural, Clone, Copy)]
pub enum ParallelPrecompileError { Halt(PrecompileHalt), Fatal(PrecompileError) }
impl ParallelPrecompileError {
    #[verifier::external_body] pub fn database(error: EvmInternalsError) -> (r: Self) ensures r is Fatal { unimplemented!() }
    pub fn clone(&self) -> (r: Self) ensures r == *self { *self }
}
/// TRUSTED: alloy EvmInternals journal facade with a ghost call log; mutators need permission
#[verifier::external_body] pub struct EvmInternals<'a> { p: core::marker::PhantomData<&'a u8> }
impl<'a> EvmInternals<'a> {
    pub uninterp spec fn view(&self) -> Seq<int>;      // journal call log
    pub uninterp spec fn may_mutate(&self) -> bool;    // false in a static context
    #[verifier::external_body] pub fn sload(&mut self, a: Address, k: U256) -> (r: Result<StateLoad<U256>, EvmInternalsError>)
        ensures final(self)@ == old(self)@.push(1), final(self).may_mutate() == old(self).may_mutate() { unimplemented!() }
    #[verifier::external_body] pub fn sstore(&mut self, a: Address, k: U256, v: U256) -> (r: Result<StateLoad<SStoreResult>, EvmInternalsError>)
        requires old(self).may_mutate(), ensures final(self)@ == old(self)@.push(2), final(self).may_mutate() == old(self).may_mutate() { unimplemented!() }
}
pub assume_specification<T, U, F: FnOnce(T) -> U>[ Option::<T>::map_or ](o: Option<T>, d: U, f: F) -> (r: U)
    requires o matches Some(x) ==> f.requires((x,)),
    ensures o is None ==> r == d, o matches Some(x) ==> f.ensures((x,), r);

pub struct ParallelPrecompileState<'a> { pub internals: EvmInternals<'a>, pub is_static: bool, pub fault: Option<ParallelPrecompileError> }
impl ParallelPrecompileState<'_> {
    pub open spec fn wf(&self) -> bool { self.is_static <==> !self.internals.may_mutate() }
    pub fn sload(
        &mut self,
        address: Address,
        key: U256,
    ) -> (r: Result<StateLoad<U256>, ParallelPrecompileError>)
        ensures old(self).fault matches Some(f) ==> r == Err::<StateLoad<U256>, _>(f) && final(self).internals == old(self).internals && final(self).fault == old(self).fault,
            final(self).is_static == old(self).is_static, {
        self.ensure_healthy()?;
        match self.internals.sload(address, key) {
            Ok(load) => Ok(load),
            Err(error) => self.record_fault(ParallelPrecompileError::database(error)),
        }
    }
    pub fn sstore(
        &mut self,
        address: Address,
        key: U256,
        value: U256,
    ) -> (r: Result<StateLoad<SStoreResult>, ParallelPrecompileError>)
        requires old(self).wf(),
        ensures old(self).fault matches Some(f) ==> r == Err::<StateLoad<SStoreResult>, _>(f) && final(self).internals == old(self).internals && final(self).fault == old(self).fault,
            old(self).fault is None && old(self).is_static ==> r is Err && final(self).internals == old(self).internals && final(self).fault is Some,
            final(self).is_static == old(self).is_static, final(self).wf(), {
        self.ensure_mutable()?;
        match self.internals.sstore(address, key, value) {
            Ok(load) => Ok(load),
            Err(error) => self.record_fault(ParallelPrecompileError::database(error)),
        }
    }
    fn ensure_healthy(&self) -> (r: Result<(), ParallelPrecompileError>)
        ensures self.fault matches Some(f) ==> r == Err::<(), _>(f), self.fault is None ==> r is Ok, {
        self.fault.clone().map_or(Ok(()), |e_: ParallelPrecompileError| -> (r_: Result<(), ParallelPrecompileError>) ensures r_ == Err::<(), ParallelPrecompileError>(e_) { Err(e_) })
    }
    fn ensure_mutable(&mut self) -> (r: Result<(), ParallelPrecompileError>)
        ensures final(self).internals == old(self).internals, final(self).is_static == old(self).is_static,
            old(self).fault matches Some(f) ==> r == Err::<(), _>(f) && final(self).fault == old(self).fault,
            old(self).fault is None && old(self).is_static ==> r is Err && final(self).fault is Some,
            r is Ok ==> !old(self).is_static && final(self).fault is None, {
        self.ensure_healthy()?;
        if self.is_static {
            self.record_fault(ParallelPrecompileError::Halt(PrecompileHalt::other_static(
                "state change during static call",
            )))
        } else {
            Ok(())
        }
    }
    fn record_fault<T>(
        &mut self,
        fault: ParallelPrecompileError,
    ) -> (r: Result<T, ParallelPrecompileError>)
        ensures r is Err, final(self).internals == old(self).internals, final(self).is_static == old(self).is_static,
            final(self).fault == (if old(self).fault is Some { old(self).fault } else { Some(fault) }), r->Err_0 == final(self).fault->Some_0, {
        let fault = self.fault.get_or_insert(fault).clone();
        Err(fault)
    }
    fn take_fault(&mut self) -> (r: Option<ParallelPrecompileError>)
        ensures r == old(self).fault, final(self).fault is None, {
        self.fault.take()
    }

}
} // verus!
fn main() {}
