use vstd::prelude::*;
use std::ops::{Deref, DerefMut};
verus! {
pub type TxId = usize;
#[derive(PartialEq, Eq, Structural, Clone, Copy)] pub struct U256(pub u64);
#[derive(PartialEq, Eq, Structural, Clone, Copy)] pub struct AccountInfo { pub balance: U256, pub nonce: u64 }
#[derive(Clone, Debug, PartialEq, Structural, Eq)]
pub struct TxVersion { pub txid: TxId, pub incarnation: usize }
impl TxVersion { pub fn new(txid: TxId, incarnation: usize) -> (r: Self) ensures r.txid == txid, r.incarnation == incarnation { Self { txid, incarnation } } }
#[derive(Clone, Copy, PartialEq, Eq, Structural)] pub struct DeferredBeneficiaryReward(pub U256);

// TRUSTED: parking_lot RwLock stand-in (havoc on acquisition)
#[verifier::external_body] #[verifier::reject_recursive_types(T)] pub struct RwLock<T> { x: core::marker::PhantomData<T> }
#[verifier::external_body] #[verifier::reject_recursive_types(T)] pub struct RwLockWriteGuard<'a, T> { x: core::marker::PhantomData<&'a T> }
impl<'a, T> RwLockWriteGuard<'a, T> { pub uninterp spec fn view(&self) -> T; }
impl<T> RwLock<T> { #[verifier::external_body] pub fn write(&self) -> (g: RwLockWriteGuard<'_, T>) { unimplemented!() } }
impl<'a, T> Deref for RwLockWriteGuard<'a, T> { type Target = T; #[verifier::external_body] fn deref(&self) -> (r: &T) ensures *r == self@ { unimplemented!() } }
impl<'a, T> DerefMut for RwLockWriteGuard<'a, T> { #[verifier::external_body] fn deref_mut(&mut self) -> (r: &mut T) ensures *r == old(self)@, *final(r) == final(self)@ { unimplemented!() } }

#[derive(Clone, PartialEq, Eq, Structural)]
pub enum BeneficiaryEffect { Unchanged, Reward(DeferredBeneficiaryReward), Snapshot(Option<AccountInfo>) }
#[derive(Clone, PartialEq, Eq, Structural)]
pub enum EntryValue { Estimate, Exact(BeneficiaryEffect) }
#[derive(Clone)]
pub struct EntryState { pub incarnation: usize, pub value: EntryValue }

pub struct HistoryEntry { pub state: RwLock<EntryState> }
impl HistoryEntry {
    fn record(&self, incarnation: usize, value: EntryValue) -> (r: bool)  {
        let mut state = self.state.write();
        let ghost pre = state@;
        if incarnation <= state.incarnation {
            proof { assert(state@ == pre && incarnation <= pre.incarnation); }
            return false;
        }

        *state = EntryState { incarnation, value };
        proof { assert(incarnation > pre.incarnation && state@.incarnation == incarnation && state@.value == value); }
        true
    }
    fn invalidate(&self, incarnation: usize) -> (r: bool)  {
        let mut state = self.state.write();
        let ghost pre = state@;
        if state.incarnation != incarnation {
            proof { assert(state@ == pre && pre.incarnation != incarnation); }
            return false;
        }
        if matches!(&state.value, EntryValue::Exact(_)) {
            state.value = EntryValue::Estimate;
        }
        proof { assert(pre.incarnation == incarnation && state@.incarnation == incarnation && state@.value == (if pre.value is Exact { EntryValue::Estimate } else { pre.value })); }
        true
    }
}
} // verus!
fn main() {}
