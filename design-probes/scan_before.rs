use vstd::prelude::*;
verus! {
pub type TxId = usize;
#[derive(PartialEq, Eq, Structural, Clone, Copy)] pub struct U256(pub u64);
#[derive(PartialEq, Eq, Structural, Clone, Copy)] pub struct AccountInfo { pub balance: U256, pub nonce: u64 }
impl AccountInfo { pub fn clone(&self) -> (r: Self) ensures r == *self { *self } }
#[derive(PartialEq, Structural, Eq)]
pub struct TxVersion { pub txid: TxId, pub incarnation: usize }
impl TxVersion { pub fn new(txid: TxId, incarnation: usize) -> (r: Self) ensures r.txid == txid, r.incarnation == incarnation { Self { txid, incarnation } } }
#[derive(Clone, Copy, PartialEq, Eq, Structural)] pub struct DeferredBeneficiaryReward(pub U256);
#[derive(PartialEq, Eq, Structural)]
pub enum BeneficiaryEffect { Unchanged, Reward(DeferredBeneficiaryReward), Snapshot(Option<AccountInfo>) }
#[derive(PartialEq, Eq, Structural)]
pub enum EntryValue { Estimate, Exact(BeneficiaryEffect) }
pub struct EntryState { pub incarnation: usize, pub value: EntryValue }
pub struct BeneficiaryReadVersion { pub origins: Vec<TxVersion> }
pub struct HistoryScan { pub base: Option<AccountInfo>, pub rewards_newest_first: Vec<DeferredBeneficiaryReward>, pub version: BeneficiaryReadVersion }

// TRUSTED: entry read through a fixed view for the duration of one scan
#[verifier::external_body] pub struct HistoryEntry { p: u8 }
impl HistoryEntry {
    pub uninterp spec fn val(&self) -> EntryState;
    #[verifier::external_body] pub fn snapshot(&self) -> (r: EntryState) ensures r == self.val() { unimplemented!() }
}
pub struct BeneficiaryHistory { pub block_anchor: Option<AccountInfo>, pub entries: Vec<HistoryEntry> }

impl BeneficiaryHistory {
    pub open spec fn val(&self, w: int) -> EntryState { self.entries@[w].val() }
    pub open spec fn exact_nonsnap(&self, w: int) -> bool { match self.val(w).value { EntryValue::Exact(e) => !(e is Snapshot), _ => false } }
    pub open spec fn snap_at(&self, w: int) -> Option<Option<AccountInfo>> { match self.val(w).value { EntryValue::Exact(BeneficiaryEffect::Snapshot(a)) => Some(a), _ => None } }
    /// every entry in [lo, hi) is exact and not a snapshot
    pub open spec fn all_exact_nonsnap(&self, lo: int, hi: int) -> bool {
        forall|w: int| lo <= w < hi ==> self.exact_nonsnap(w)
    }
    /// origins of entries hi-1 down to lo (newest first)
    pub open spec fn spec_origins(&self, lo: int, hi: int) -> Seq<TxVersion> decreases hi - lo {
        if hi <= lo { Seq::empty() } else { self.spec_origins(lo + 1, hi).push(TxVersion { txid: lo as usize, incarnation: self.val(lo).incarnation }) }
    }
    pub open spec fn spec_rewards(&self, lo: int, hi: int) -> Seq<DeferredBeneficiaryReward> decreases hi - lo {
        if hi <= lo { Seq::empty() } else {
            match self.val(lo).value { EntryValue::Exact(BeneficiaryEffect::Reward(r)) => self.spec_rewards(lo + 1, hi).push(r), _ => self.spec_rewards(lo + 1, hi) }
        }
    }

    fn scan_before(&self, txid: TxId) -> (r: Result<HistoryScan, TxId>) 
        requires txid <= self.entries.len(),
        ensures
            match r {
                Err(w) => w < txid && self.val(w as int).value is Estimate && self.all_exact_nonsnap(w as int + 1, txid as int),
                Ok(scan) => exists|s: int| 0 <= s <= txid && #[trigger] self.all_exact_nonsnap(s, txid as int) && {
                    if s > 0 && self.snap_at(s - 1) is Some {
                        scan.base == self.snap_at(s - 1)->Some_0 && scan.version.origins@ == self.spec_origins(s - 1, txid as int) && scan.rewards_newest_first@ == self.spec_rewards(s, txid as int)
                    } else {
                        s == 0 && scan.base == self.block_anchor && scan.version.origins@ == self.spec_origins(0, txid as int) && scan.rewards_newest_first@ == self.spec_rewards(0, txid as int)
                    }
                },
            },
    {
        assert!(
            txid <= self.entries.len(),
            "beneficiary reader transaction {txid} is outside block of {} transactions",
            self.entries.len()
        );

        let mut origins = Vec::new();
        let mut rewards_newest_first = Vec::new();

        for writer in it: (0..txid).rev()
            invariant
                txid <= self.entries.len(),
                origins@ == self.spec_origins(txid as int - it.index@, txid as int),
                rewards_newest_first@ == self.spec_rewards(txid as int - it.index@, txid as int),
                self.all_exact_nonsnap(txid as int - it.index@, txid as int),
        {
            let EntryState { incarnation, value } = self.entries[writer].snapshot();
            let effect = match value {
                EntryValue::Estimate => return Err(writer),
                EntryValue::Exact(effect) => effect,
            };

            origins.push(TxVersion::new(writer, incarnation));
            match effect {
                BeneficiaryEffect::Unchanged => {}
                BeneficiaryEffect::Reward(reward) => rewards_newest_first.push(reward),
                BeneficiaryEffect::Snapshot(account) => {
                    return Ok(HistoryScan {
                        base: account,
                        rewards_newest_first,
                        version: BeneficiaryReadVersion { origins },
                    });
                }
            }
        }

        Ok(HistoryScan {
            base: self.block_anchor.clone(),
            rewards_newest_first,
            version: BeneficiaryReadVersion { origins },
        })
    }
}
} // verus!
fn main() {}
