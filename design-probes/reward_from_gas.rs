use vstd::prelude::*;
verus! {
#[derive(PartialEq, Eq, Structural, Clone, Copy)] pub struct Address(pub u64);
#[derive(PartialEq, Eq, Structural, Clone, Copy)] pub struct U256(pub u128);
impl From<u128> for U256 { fn from(x: u128) -> (r: U256) { U256(x) } }
impl vstd::std_specs::convert::FromSpecImpl<u128> for U256 { open spec fn obeys_from_spec() -> bool { true } open spec fn from_spec(x: u128) -> U256 { U256(x) } }
#[derive(PartialEq, Eq, Structural, Clone, Copy)]
pub enum SpecId { FRONTIER, LONDON, PRAGUE }
impl SpecId {
    pub uninterp spec fn enabled(self, o: SpecId) -> bool;
    #[verifier::external_body] pub fn is_enabled_in(self, o: SpecId) -> (b: bool) ensures b == self.enabled(o) { unimplemented!() }
    pub fn clone(&self) -> (r: Self) ensures r == *self { *self }
}
#[derive(PartialEq, Eq, Structural, Clone, Copy)] pub struct CfgSpec(pub SpecId);
impl CfgSpec { pub fn clone(&self) -> (r: Self) ensures r == *self { *self } }
impl From<CfgSpec> for SpecId { fn from(x: CfgSpec) -> (r: SpecId) { x.0 } }
impl vstd::std_specs::convert::FromSpecImpl<CfgSpec> for SpecId { open spec fn obeys_from_spec() -> bool { true } open spec fn from_spec(x: CfgSpec) -> SpecId { x.0 } }
pub struct Gas { pub used_: u64, pub reservoir_: u64 }
impl Gas { pub fn used(&self) -> (r: u64) ensures r == self.used_ { self.used_ } pub fn reservoir(&self) -> (r: u64) ensures r == self.reservoir_ { self.reservoir_ } }
// shared, uninterpreted context accessors (same on both sides)
pub trait Cfg { spec fn fee_disabled(&self) -> bool; spec fn spec_id(&self) -> SpecId;
    fn is_fee_charge_disabled(&self) -> (b: bool) ensures b == self.fee_disabled();
    fn spec(&self) -> (s: &CfgSpec) ensures s.0 == self.spec_id(); }
pub trait Block { spec fn basefee_spec(&self) -> u64; spec fn beneficiary_spec(&self) -> Address;
    fn basefee(&self) -> (b: u64) ensures b == self.basefee_spec();
    fn beneficiary(&self) -> (a: Address) ensures a == self.beneficiary_spec(); }
pub trait Transaction { spec fn egp(&self, basefee: u128) -> u128;
    fn effective_gas_price(&self, basefee: u128) -> (p: u128) ensures p == self.egp(basefee); }
pub struct JournaledAccount<'a> { pub credited: &'a mut Seq<U256> }
impl<'a> JournaledAccount<'a> {
    #[verifier::external_body] pub fn incr_balance(&mut self, x: U256) -> bool ensures *final(self).credited == old(self).credited.push(x) { unimplemented!() }
}
pub trait JournalTr { 
    spec fn credits(&self) -> Seq<U256>;
    fn load_account_mut(&mut self, a: Address) -> (r: Result<JournaledAccount<'_>, u8>) ;
}
pub trait Database { type Error; }
pub trait ContextTr {
    type Cfg: Cfg; type Block: Block; type Tx: Transaction; type Journal: JournalTr; type Db: Database;
    spec fn cfg_s(&self) -> Self::Cfg; spec fn block_s(&self) -> Self::Block; spec fn tx_s(&self) -> Self::Tx;
    fn cfg(&self) -> (r: &Self::Cfg) ensures *r == self.cfg_s();
    fn block(&self) -> (r: &Self::Block) ensures *r == self.block_s();
    fn tx(&self) -> (r: &Self::Tx) ensures *r == self.tx_s();
}
pub struct BeneficiaryReward(pub U256);
impl BeneficiaryReward {
    fn from_gas<CTX>(context: &CTX, gas: &Gas) -> (r: Option<Self>)
    where
        CTX: ContextTr,
    
        requires ({ let bf = context.block_s().basefee_spec() as u128; let egp = context.tx_s().egp(bf);
                    let p = if context.cfg_s().spec_id().enabled(SpecId::LONDON) { if egp >= bf { (egp - bf) as u128 } else { 0u128 } } else { egp };
                    let u = if gas.used_ >= gas.reservoir_ { (gas.used_ - gas.reservoir_) as u64 } else { 0u64 };
                    p * (u as u128) <= u128::MAX }),
        ensures r == reward_spec(context.cfg_s().fee_disabled(), context.cfg_s().spec_id(), context.block_s().basefee_spec(), context.tx_s().egp(context.block_s().basefee_spec() as u128), gas.used_, gas.reservoir_),
    {
        if context.cfg().is_fee_charge_disabled() {
            return None;
        }

        let basefee = context.block().basefee() as u128;
        let effective_gas_price = context.tx().effective_gas_price(basefee);
        let spec: SpecId = context.cfg().spec().clone().into();
        let beneficiary_gas_price = if spec.is_enabled_in(SpecId::LONDON) {
            effective_gas_price.saturating_sub(basefee)
        } else {
            effective_gas_price
        };
        let effective_used = gas.used().saturating_sub(gas.reservoir());

        // Keep arithmetic identical to revm's reward hook.
        Some(Self(U256::from(beneficiary_gas_price * effective_used as u128)))
    }
}
pub open spec fn reward_spec(disabled: bool, spec: SpecId, basefee: u64, egp: u128, used: u64, reservoir: u64) -> Option<BeneficiaryReward> {
    if disabled { None } else {
        let bf = basefee as u128;
        let p = if spec.enabled(SpecId::LONDON) { if egp >= bf { (egp - bf) as u128 } else { 0u128 } } else { egp };
        let u = if used >= reservoir { (used - reservoir) as u64 } else { 0u64 };
        Some(BeneficiaryReward(U256((p * (u as u128)) as u128)))
    }
}
} // verus!
fn main() {}
