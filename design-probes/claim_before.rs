use vstd::prelude::*;
verus! {


trait RewindableAtomic {
    fn load(&self, ordering: core::sync::atomic::Ordering) -> usize;
    fn compare_exchange_weak(
        &self,
        current: usize,
        new: usize,
        success: core::sync::atomic::Ordering,
        failure: core::sync::atomic::Ordering,
    ) -> (r: Result<usize, usize>)
        requires new == current + 1,
        ensures r is Ok ==> r == Ok::<usize,usize>(current);
}

use core::sync::atomic::Ordering;

#[inline]
#[verifier::exec_allows_no_decreases_clause]
fn claim_before(cursor: &impl RewindableAtomic, limit: usize) -> (r: Option<usize>)
    ensures r matches Some(i) ==> i < limit,
{
    loop {
        let current = cursor.load(Ordering::Acquire);
        if current >= limit {
            return None;
        }
        if cursor
            .compare_exchange_weak(current, current + 1, Ordering::AcqRel, Ordering::Acquire)
            .is_ok()
        {
            return Some(current);
        }
    }
}

} // verus!
fn main() {}
