use vstd::prelude::*;
use std::cmp::Ordering;
verus! {

pub type TxId = usize;
pub assume_specification<T, U, F: FnOnce(T) -> U>[ Option::<T>::map_or ](o: Option<T>, d: U, f: F) -> (r: U)
    requires o matches Some(x) ==> f.requires((x,)),
    ensures o is None ==> r == d, o matches Some(x) ==> f.ensures((x,), r);

// ---------- trusted stand-ins for revm / grevm dependencies ----------
#[derive(PartialEq, Eq, Structural, Clone, Copy)]
pub struct Address(pub u64);
#[derive(PartialEq, Eq, Structural, Clone, Copy)]
pub struct U256(pub u64);

pub struct AccountInfo { pub balance: U256, pub nonce: u64, pub code_hash: u64 }

pub struct Account { pub info: AccountInfo, pub touched: bool }
impl Account {
    pub fn mark_touch(&mut self) ensures final(self).info == old(self).info, final(self).touched { self.touched = true; }
}
impl From<AccountInfo> for Account {
    fn from(info: AccountInfo) -> (a: Account) { Account { info, touched: false } }
}
impl vstd::std_specs::convert::FromSpecImpl<AccountInfo> for Account {
    open spec fn obeys_from_spec() -> bool { true }
    open spec fn from_spec(info: AccountInfo) -> Account { Account { info, touched: false } }
}

#[verifier::external_body]
pub struct EvmState { m: std::collections::HashMap<u64, u64> }
impl EvmState {
    pub uninterp spec fn view(&self) -> Map<Address, Account>;
    #[verifier::external_body]
    pub fn contains_key(&self, a: &Address) -> (b: bool) ensures b == self@.dom().contains(*a) { unimplemented!() }
    #[verifier::external_body]
    pub fn insert(&mut self, a: Address, acc: Account) -> (o: Option<Account>)
        ensures final(self)@ == old(self)@.insert(a, acc) { unimplemented!() }
}

pub struct ExecutionResult { pub gas: u64 }
pub struct ResultAndState { pub result: ExecutionResult, pub state: EvmState }
pub struct TxEnv { pub caller: Address, pub nonce: u64 }
pub enum EVMError<E> { Database(E), Custom(u8) }
pub struct GrevmError<E> { pub txid: usize, pub error: EVMError<E> }
pub enum TxExecutionOutcome { Executed(ExecutionResult), Skipped(u8) }

#[derive(Clone, Copy)]
pub struct DeferredBeneficiaryReward(pub U256);
impl DeferredBeneficiaryReward {
    pub uninterp spec fn spec_apply(self, a: Option<AccountInfo>) -> AccountInfo;
    #[verifier::external_body]
    pub fn apply_to(self, account: Option<AccountInfo>) -> (r: AccountInfo) ensures r == self.spec_apply(account) { unimplemented!() }
}
pub struct SpeculativeResult { pub result_and_state: ResultAndState, pub deferred_reward: Option<DeferredBeneficiaryReward> }
impl SpeculativeResult {
    pub fn into_commit_parts(self) -> (r: (ResultAndState, Option<DeferredBeneficiaryReward>))
        ensures r.0 == self.result_and_state, r.1 == self.deferred_reward
    { (self.result_and_state, self.deferred_reward) }
}

pub trait DatabaseRef { type Error; }

/// committed-state view: abstract map + commit log
#[verifier::external_body]
#[verifier::reject_recursive_types(DB)]
pub struct ParallelStateCommit<'a, DB> { p: core::marker::PhantomData<&'a DB> }
impl<'a, DB: DatabaseRef> ParallelStateCommit<'a, DB> {
    /// sequence of EvmStates committed so far (ghost log)
    pub uninterp spec fn log(&self) -> Seq<Map<Address, Account>>;
    /// what basic_ref answers for the current committed prefix (None = db error)
    pub uninterp spec fn basic(&self, a: Address) -> Result<Option<AccountInfo>, DB::Error>;
    #[verifier::external_body]
    pub fn basic_ref(&self, a: Address) -> (r: Result<Option<AccountInfo>, DB::Error>) ensures r == self.basic(a) { unimplemented!() }
    #[verifier::external_body]
    pub fn commit(&mut self, s: EvmState) ensures final(self).log() == old(self).log().push(s@) { unimplemented!() }
}

pub struct CommittedPrefixEnd(pub TxId);
impl CommittedPrefixEnd { fn new(index: TxId) -> (r: Self) ensures r.0 == index { Self(index) } }
pub enum CommitOutcome { Committed(CommittedPrefixEnd), NeedsSequentialFallback }
pub struct OrderedCommitOutput { pub outcomes: Vec<TxExecutionOutcome> }
impl OrderedCommitOutput {
    pub fn end(&self) -> (r: CommittedPrefixEnd) ensures r.0 == self.outcomes.len() { CommittedPrefixEnd::new(self.outcomes.len()) }
    pub fn push(&mut self, result: ExecutionResult) -> (r: CommittedPrefixEnd)
        ensures final(self).outcomes@ == old(self).outcomes@.push(TxExecutionOutcome::Executed(result)), r.0 == final(self).outcomes.len()
    { self.outcomes.push(TxExecutionOutcome::Executed(result)); self.end() }
}

#[verifier::reject_recursive_types(DB)]
pub struct OrderedCommitter<'a, DB: DatabaseRef> {
    pub beneficiary: Address,
    pub state: ParallelStateCommit<'a, DB>,
    pub disable_nonce_check: bool,
}

pub open spec fn committed_nonce<E>(r: Result<Option<AccountInfo>, E>) -> u64 {
    match r { Ok(Some(i)) => i.nonce, _ => 0 }
}

impl<'a, DB> OrderedCommitter<'a, DB> where DB: DatabaseRef {
    pub fn commit(
        &mut self,
        txid: TxId,
        tx_env: &TxEnv,
        speculative_result: SpeculativeResult,
        output: &mut OrderedCommitOutput,
    ) -> (r: Result<CommitOutcome, GrevmError<DB::Error>>) 
        requires speculative_result.deferred_reward is Some ==> !speculative_result.result_and_state.state@.dom().contains(old(self).beneficiary),
        ensures
            final(self).beneficiary == old(self).beneficiary, final(self).disable_nonce_check == old(self).disable_nonce_check,
            // skipped-or-error: nothing committed, no outcome pushed
            !(r matches Ok(CommitOutcome::Committed(_))) ==> final(self).state.log() == old(self).state.log() && final(output).outcomes@ == old(output).outcomes@,
            // nonce rule
            !old(self).disable_nonce_check && (old(self).state.basic(tx_env.caller) is Ok) ==>
                ((r matches Ok(CommitOutcome::Committed(_))) ==> tx_env.nonce == committed_nonce(old(self).state.basic(tx_env.caller)) && tx_env.nonce != u64::MAX),
            !old(self).disable_nonce_check && (old(self).state.basic(tx_env.caller) is Ok) && tx_env.nonce != committed_nonce(old(self).state.basic(tx_env.caller))
                ==> r matches Ok(CommitOutcome::NeedsSequentialFallback),
            !old(self).disable_nonce_check && (old(self).state.basic(tx_env.caller) matches Err(e)) ==> (r matches Err(ge) && ge.txid == txid),
            // committed: exactly one state appended, one outcome appended
            r matches Ok(CommitOutcome::Committed(c)) ==> final(self).state.log().len() == old(self).state.log().len() + 1
                && final(output).outcomes@ == old(output).outcomes@.push(TxExecutionOutcome::Executed(speculative_result.result_and_state.result))
                && c.0 == old(output).outcomes.len() + 1,
            // reward folding
            (r matches Ok(CommitOutcome::Committed(_))) && speculative_result.deferred_reward is None ==> final(self).state.log().last() == speculative_result.result_and_state.state@,
            speculative_result.deferred_reward matches Some(rw) ==> (r matches Ok(CommitOutcome::Committed(_))) ==>
                 (old(self).state.basic(old(self).beneficiary) matches Ok(bi) &&
                  final(self).state.log().last().dom() == speculative_result.result_and_state.state@.dom().insert(old(self).beneficiary) &&
                  final(self).state.log().last()[old(self).beneficiary].info == rw.spec_apply(bi) &&
                  final(self).state.log().last()[old(self).beneficiary].touched),
    {
        // Workers retain the original transaction nonce but execute with revm's state nonce check
        // disabled. Recheck it here against the ordered, committed state.
        let (result_and_state, deferred_reward) = speculative_result.into_commit_parts();
        let result = result_and_state.result;
        let mut state = result_and_state.state;
        if !self.disable_nonce_check {
            match self.state.basic_ref(tx_env.caller) {
                Ok(info) => {
                    // A non-existent account has Ethereum's default nonce of zero.
                    let expect = info.map_or(0, |info: AccountInfo| -> (n: u64) ensures n == info.nonce { info.nonce });
                    if tx_env.nonce == u64::MAX && expect == u64::MAX {
                        // Leave the speculative result uncommitted and let sequential execution
                        // classify the nonce overflow as an invalid transaction skip.
                        return Ok(CommitOutcome::NeedsSequentialFallback);
                    }
                    match tx_env.nonce.cmp(&expect) {
                        Ordering::Greater => {
                            // Do not finalize the speculative nonce verdict here. Leave this
                            // transaction out of `results` so sequential fallback starts at this
                            // exact transaction and validates it again against committed state.
                            return Ok(CommitOutcome::NeedsSequentialFallback);
                        }
                        Ordering::Less => {
                            // See the nonce-too-high branch above: fallback owns the final outcome.
                            return Ok(CommitOutcome::NeedsSequentialFallback);
                        }
                        _ => {}
                    }
                }
                Err(e) => {
                    return Err(GrevmError { txid, error: EVMError::Database(e) });
                }
            }
        }
        if let Some(reward) = deferred_reward {
            assert!(
                !state.contains_key(&self.beneficiary),
                "a deferred reward must not accompany a beneficiary state write",
            );
            let info = self
                .state
                .basic_ref(self.beneficiary)
                .map_err(|error: DB::Error| -> (g: GrevmError<DB::Error>) ensures g.txid == txid { GrevmError { txid, error: EVMError::Database(error) } })?;
            let mut account = Account::from(reward.apply_to(info));
            account.mark_touch();
            let _ = state.insert(self.beneficiary, account);
        }
        self.state.commit(state);
        Ok(CommitOutcome::Committed(output.push(result)))
    }
}

} // verus!
fn main() {}
