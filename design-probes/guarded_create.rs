use vstd::prelude::*;
verus! {

#[derive(PartialEq, Eq, Structural, Clone, Copy)] pub struct Address(pub u64);
#[derive(PartialEq, Eq, Structural, Clone, Copy)]
pub enum SpecId { FRONTIER, PETERSBURG, PRAGUE }
impl SpecId {
    pub uninterp spec fn enabled(self, o: SpecId) -> bool;
    #[verifier::external_body]
    pub fn is_enabled_in(self, o: SpecId) -> (b: bool) ensures b == self.enabled(o) { unimplemented!() }
}
#[derive(PartialEq, Eq, Structural, Clone, Copy)]
pub enum InstructionResult { StateChangeDuringStaticCall, NotActivated, FatalExternalError, Other(u8) }
pub type InstructionExecResult = Result<(), InstructionResult>;

pub trait RuntimeFlag {
    spec fn static_spec(&self) -> bool;
    spec fn spec_spec(&self) -> SpecId;
    fn is_static(&self) -> (b: bool) ensures b == self.static_spec();
    fn spec_id(&self) -> (s: SpecId) ensures s == self.spec_spec();
}
pub trait InputsTr {
    spec fn target_spec(&self) -> Address;
    fn target_address(&self) -> (a: Address) ensures a == self.target_spec();
}
pub trait InterpreterTypes { type RuntimeFlag: RuntimeFlag; type Input: InputsTr; }
pub struct Interpreter<WIRE: InterpreterTypes> { pub runtime_flag: WIRE::RuntimeFlag, pub input: WIRE::Input }
pub struct AccountLoad { pub is_delegate_account_cold: Option<bool> }
pub trait Host {
    spec fn delegated_spec(&self, a: Address) -> Option<AccountLoad>;
    fn load_account_delegated(&mut self, a: Address) -> (r: Option<AccountLoad>)
        ensures r == old(self).delegated_spec(a), final(self).host_eq(old(self));
    spec fn host_eq(&self, o: &Self) -> bool;
}
pub struct InstructionContext<'a, H: ?Sized, WIRE: InterpreterTypes> {
    pub interpreter: &'a mut Interpreter<WIRE>,
    pub host: &'a mut H,
}
pub mod contract {
    use super::*;
    pub uninterp spec fn create_res<WIRE: InterpreterTypes, H: Host + ?Sized>(c2: bool, i: Interpreter<WIRE>, h: &H) -> InstructionExecResult;
    #[verifier::external_body]
    pub fn create<const IS_CREATE2: bool, WIRE: InterpreterTypes, H: Host + ?Sized>(context: InstructionContext<'_, H, WIRE>) -> (r: InstructionExecResult)
        ensures r == create_res::<WIRE, H>(IS_CREATE2, *old(context.interpreter), old(context.host))
        { unimplemented!() }
}

fn guarded_create<const IS_CREATE2: bool, WIRE: InterpreterTypes, H: Host + ?Sized>(
    context: InstructionContext<'_, H, WIRE>,
) -> (r: InstructionExecResult)
    ensures
        old(context.interpreter).runtime_flag.static_spec() ==> r == Err::<(), _>(InstructionResult::StateChangeDuringStaticCall),
        !old(context.interpreter).runtime_flag.static_spec() && IS_CREATE2 && !old(context.interpreter).runtime_flag.spec_spec().enabled(SpecId::PETERSBURG)
            ==> r == Err::<(), _>(InstructionResult::NotActivated),
        ({ let st = old(context.interpreter).runtime_flag.static_spec();
           let pre = IS_CREATE2 && !old(context.interpreter).runtime_flag.spec_spec().enabled(SpecId::PETERSBURG);
           let tgt = old(context.interpreter).input.target_spec();
           let ld = old(context.host).delegated_spec(tgt);
           !st && !pre ==> (match ld {
               None => r == Err::<(), _>(InstructionResult::FatalExternalError),
               Some(l) => if l.is_delegate_account_cold is Some { r == Err::<(), _>(InstructionResult::NotActivated) }
                          else { exists|h2: &H| h2.host_eq(old(context.host)) && r == contract::create_res::<WIRE, H>(IS_CREATE2, *old(context.interpreter), h2) },
           }) }),
{
    if context.interpreter.runtime_flag.is_static() {
        return Err(InstructionResult::StateChangeDuringStaticCall)
    }

    if IS_CREATE2 && !context.interpreter.runtime_flag.spec_id().is_enabled_in(SpecId::PETERSBURG) {
        return Err(InstructionResult::NotActivated)
    }

    // `target_address` is the account owning this execution context. For a 7702 call it remains
    // the delegated EOA even though the interpreter executes bytecode loaded from its delegate.
    let recipient = context.interpreter.input.target_address();
    let Some(load) = context.host.load_account_delegated(recipient) else {
        return Err(InstructionResult::FatalExternalError)
    };

    // `Some(coldness)` means the target has an EIP-7702 delegation designator; the boolean itself
    // only reports whether loading the delegate was cold and is irrelevant to this policy.
    if load.is_delegate_account_cold.is_some() {
        return Err(InstructionResult::NotActivated)
    }

    contract::create::<IS_CREATE2, WIRE, H>(context)
}

} // verus!
fn main() {}
