use vstd::prelude::*;
verus! {
pub enum Ordering { Relaxed, Release, Acquire, AcqRel, SeqCst }
pub enum EVMError<E> { Database(E), Custom(String) }
pub struct GrevmError<E> { pub txid: usize, pub error: EVMError<E> }
pub trait DatabaseRef { type Error; }

/// one-shot election flag: never reset; compare_exchange(false,true) succeeds for exactly one caller.
#[verifier::external_body] pub struct AtomicBool { p: u8 }
impl AtomicBool {
    /// prophecy: this *call* is the elected one
    pub uninterp spec fn elected(&self) -> bool;
    #[verifier::external_body]
    pub fn compare_exchange(&self, current: bool, new: bool, s: Ordering, f: Ordering) -> (r: Result<bool, bool>)
        requires current == false, new == true,
        ensures r is Ok <==> self.elected(), r matches Err(v) ==> v == true,
    { unimplemented!() }
}
#[verifier::external_body] #[derive(Clone, Copy)] pub struct Instant { p: u8 }
impl Instant {
    #[verifier::external_body] pub fn now() -> Instant { unimplemented!() }
    #[verifier::external_body] pub fn elapsed(&self) -> u64 { unimplemented!() }
}
#[verifier::external_body] pub struct Metrics { p: u8 }
impl Metrics {
    #[verifier::external_body] pub fn record_block_start(&self, n: usize) { unimplemented!() }
    #[verifier::external_body] pub fn record_validation_resets(&self, n: usize) { unimplemented!() }
    #[verifier::external_body] pub fn record_total_time(&self, n: u64) { unimplemented!() }
    #[verifier::external_body] pub fn report(&self) { unimplemented!() }
}
#[verifier::external_body] pub struct SchedulerContext { p: u8 }
impl SchedulerContext {
    #[verifier::external_body] pub fn committed_idx(&self) -> usize { unimplemented!() }
    #[verifier::external_body] pub fn validation_reset_count(&self) -> usize { unimplemented!() }
}

pub struct Config { pub concurrency_level: usize }
pub struct CommittedPrefixEnd(pub usize);
impl CommittedPrefixEnd { pub const ZERO: Self = Self(0); }
#[verifier::reject_recursive_types(DB)]
pub struct Scheduler<DB: DatabaseRef> {
    pub config: Config,
    pub block_size: usize,
    pub scheduler_ctx: SchedulerContext,
    pub started: AtomicBool,
    pub metrics: Metrics,
    pub x: core::marker::PhantomData<DB>,
}

impl<DB: DatabaseRef> Scheduler<DB> {
    pub fn run_once(
        &self,
        execute: impl FnOnce(Instant) -> Result<(), GrevmError<DB::Error>>,
    ) -> (result: Result<(), GrevmError<DB::Error>>)
        requires self.started.elected() ==> forall|i: Instant| execute.requires((i,)),
        ensures !self.started.elected() ==> (result matches Err(e) && e.error is Custom),
                self.started.elected() ==> exists|i: Instant| execute.ensures((i,), result),
    {
        let txid = self.scheduler_ctx.committed_idx().min(self.block_size.saturating_sub(1));
        // This flag only elects the single execution caller and never publishes scheduler data.
        self.started.compare_exchange(false, true, Ordering::Relaxed, Ordering::Relaxed).map_err(
            |_e: bool| -> (g: GrevmError<DB::Error>) ensures g.error is Custom { GrevmError {
                txid,
                error: EVMError::Custom(
                    "a Scheduler can execute only once; create a new Scheduler for each block"
                        .to_owned(),
                ),
            } },
        )?;

        let started = Instant::now();
        self.metrics.record_block_start(self.block_size);
        let result = execute(started);
        self.metrics.record_validation_resets(self.scheduler_ctx.validation_reset_count());
        self.metrics.record_total_time(started.elapsed());
        self.metrics.report();
        result
    }

    /// stand-ins for the two execution paths: callable only by the elected caller
    #[verifier::external_body] pub fn parallel_execute_inner(&self, c: usize, started: Instant) -> Result<(), GrevmError<DB::Error>> requires self.started.elected() { unimplemented!() }
    #[verifier::external_body] pub fn replay_uncommitted_suffix(&self, c: CommittedPrefixEnd) -> Result<(), GrevmError<DB::Error>> requires self.started.elected() { unimplemented!() }
    pub fn execute(&self) -> (r: Result<(), GrevmError<DB::Error>>) 
        requires self.config.concurrency_level > 0,
        ensures !self.started.elected() ==> r is Err,
    {
        self.parallel_execute(None)
    }
    pub fn parallel_execute(
        &self,
        concurrency_level: Option<usize>,
    ) -> (r: Result<(), GrevmError<DB::Error>>) 
        requires (match concurrency_level { Some(c) => c, None => self.config.concurrency_level }) > 0,
        ensures !self.started.elected() ==> r is Err,
    {
        let concurrency_level = concurrency_level.unwrap_or(self.config.concurrency_level);
        assert!(concurrency_level > 0, "grevm concurrency level must be greater than zero");
        self.run_once(|started: Instant| -> (r: Result<(), GrevmError<DB::Error>>) requires self.started.elected() { self.parallel_execute_inner(concurrency_level, started) })
    }
    pub fn fallback_sequential(&self) -> (r: Result<(), GrevmError<DB::Error>>) 
        ensures !self.started.elected() ==> r is Err,
    {
        self.run_once(|_e: Instant| -> (r: Result<(), GrevmError<DB::Error>>) requires self.started.elected() { self.replay_uncommitted_suffix(CommittedPrefixEnd::ZERO) })
    }
}
} // verus!
fn main() {}
