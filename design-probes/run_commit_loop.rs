use vstd::prelude::*;
use std::ops::{Deref, DerefMut};
verus! {
pub type TxId = usize;
pub struct TxEnv { pub x: u64 }
pub struct ExecutionResult { pub gas: u64 }
pub enum TxExecutionOutcome { Executed(ExecutionResult), Skipped(u8) }
pub enum EVMError<E> { Database(E), Custom(u8) }
pub struct GrevmError<E> { pub txid: usize, pub error: EVMError<E> }
impl<E: Copy> GrevmError<E> { #[verifier::external_body] pub fn clone(&self) -> (r: Self) { unimplemented!() } }
pub struct SpeculativeResult { pub x: u64 }
pub struct TransactionResult<E> { pub execute_result: Result<SpeculativeResult, EVMError<E>> }
pub enum AbortReason<E> { CommitError(GrevmError<E>), ParallelError { txid: TxId, message: &'static str }, FallbackSequential }
pub struct CommittedPrefixEnd(pub TxId);
impl CommittedPrefixEnd { pub fn index(self) -> (r: TxId) ensures r == self.0 { self.0 } }
pub enum CommitOutcome { Committed(CommittedPrefixEnd), NeedsSequentialFallback }
pub struct OrderedCommitOutput { pub outcomes: Vec<TxExecutionOutcome> }
impl OrderedCommitOutput { pub fn with_capacity(c: usize) -> (r: Self) ensures r.outcomes.len() == 0 { Self { outcomes: Vec::with_capacity(c) } } }
pub struct CommitLoopResult<E> { pub committed: OrderedCommitOutput, pub error: Option<GrevmError<E>> }
pub trait DatabaseRef { type Error: Copy; }
#[verifier::external_body] #[verifier::reject_recursive_types(DB)] pub struct ParallelStateCommit<DB> { p: core::marker::PhantomData<DB> }
impl<DB> ParallelStateCommit<DB> { pub uninterp spec fn log(&self) -> Seq<int>; }
#[verifier::reject_recursive_types(DB)] pub struct OrderedCommitter<DB: DatabaseRef> { pub state: ParallelStateCommit<DB> }
impl<DB: DatabaseRef> OrderedCommitter<DB> {
    /// contract proved in U05 (restated; callee is verified against it there)
    #[verifier::external_body]
    pub fn commit(&mut self, txid: TxId, tx_env: &TxEnv, r: SpeculativeResult, output: &mut OrderedCommitOutput) -> (res: Result<CommitOutcome, GrevmError<DB::Error>>)
        requires txid == old(output).outcomes.len(),
        ensures res matches Ok(CommitOutcome::Committed(c)) ==> c.0 == old(output).outcomes.len() + 1 && final(output).outcomes.len() == old(output).outcomes.len() + 1 && final(self).state.log().len() == old(self).state.log().len() + 1,
                !(res matches Ok(CommitOutcome::Committed(_))) ==> final(output).outcomes.len() == old(output).outcomes.len() && final(self).state.log() == old(self).state.log(),
    { unimplemented!() }
}
#[verifier::external_body] #[verifier::reject_recursive_types(T)] pub struct Mutex<T> { x: core::marker::PhantomData<T> }
#[verifier::external_body] #[verifier::reject_recursive_types(T)] pub struct MutexGuard<'a, T> { x: core::marker::PhantomData<&'a T> }
impl<'a, T> MutexGuard<'a, T> { pub uninterp spec fn view(&self) -> T; }
impl<T> Mutex<T> { #[verifier::external_body] pub fn lock(&self) -> (g: MutexGuard<'_, T>) { unimplemented!() } }
impl<'a, T> Deref for MutexGuard<'a, T> { type Target = T; #[verifier::external_body] fn deref(&self) -> (r: &T) ensures *r == self@ { unimplemented!() } }
impl<'a, T> DerefMut for MutexGuard<'a, T> { #[verifier::external_body] fn deref_mut(&mut self) -> (r: &mut T) ensures *r == old(self)@, *final(r) == final(self)@ { unimplemented!() } }
#[verifier::external_body] pub struct Instant { p: u8 }
impl Instant { #[verifier::external_body] pub fn now() -> Instant { unimplemented!() } #[verifier::external_body] pub fn elapsed(&self) -> u64 { unimplemented!() } }
#[verifier::external_body] pub struct Metrics { p: u8 }
impl Metrics { #[verifier::external_body] pub fn record_commit_time(&self, d: u64) { unimplemented!() } }
#[verifier::external_body] pub struct SchedulerContext { p: u8 }
impl SchedulerContext {
    /// issued-fact: publish_commit(v) has been called
    pub uninterp spec fn commit_published(&self, v: usize) -> bool;
    pub uninterp spec fn num(&self) -> usize;
    /// R/G invariant of the finality cell: published values never exceed the block size (guaranteed by run_finality_loop)
    #[verifier::external_body] pub fn finality_idx(&self) -> (v: usize) ensures v <= self.num() { unimplemented!() }
    #[verifier::external_body] pub fn publish_commit(&self, v: usize) ensures self.commit_published(v) { unimplemented!() }
}
#[verifier::external_body] pub struct TxDependency { p: u8 }
impl TxDependency { #[verifier::external_body] pub fn commit(&self, txid: TxId) { unimplemented!() } }
#[verifier::external_body] pub struct WaitSlot { p: u8 }
impl WaitSlot {
    #[verifier::external_body] pub fn register_current_thread(&self) { unimplemented!() }
    #[verifier::external_body] pub fn wait_while<F: FnMut() -> bool>(&self, t: u64, blocked: F) requires blocked.requires(()) { unimplemented!() }
}
pub mod thread { use super::*; #[verifier::external_body] pub fn yield_now() { unimplemented!() } }
pub const STALL_TIMEOUT: u64 = 8;

#[verifier::reject_recursive_types(DB)]
pub struct Scheduler<DB: DatabaseRef> {
    pub block_size: usize,
    pub txs: Vec<TxEnv>,
    pub tx_results: Vec<Mutex<Option<TransactionResult<DB::Error>>>>,
    pub tx_dependency: TxDependency,
    pub scheduler_ctx: SchedulerContext,
    pub commit_wait: WaitSlot,
    pub metrics: Metrics,
}
impl<DB: DatabaseRef> Scheduler<DB> {
    pub open spec fn wf(&self) -> bool { self.scheduler_ctx.num() == self.block_size && self.txs.len() == self.block_size && self.tx_results.len() == self.block_size }
    #[verifier::external_body] pub fn abort(&self, r: AbortReason<DB::Error>) { unimplemented!() }
    #[verifier::external_body] pub fn is_aborted(&self) -> bool { unimplemented!() }

    #[verifier::exec_allows_no_decreases_clause]
    fn run_commit_loop(&self, committer: &mut OrderedCommitter<DB>) -> (r: CommitLoopResult<DB::Error>) 
        requires self.wf(),
        ensures r.committed.outcomes.len() <= self.block_size,
            final(committer).state.log().len() == old(committer).state.log().len() + r.committed.outcomes.len(),
    {
        self.commit_wait.register_current_thread();
        let mut output = OrderedCommitOutput::with_capacity(self.block_size);
        let mut commit_idx = 0;
        while !self.is_aborted() && commit_idx < self.block_size
            invariant self.wf(), output.outcomes.len() == commit_idx, commit_idx <= self.block_size,
                committer.state.log().len() == old(committer).state.log().len() + commit_idx,
        {
            let previous_commit_idx = commit_idx;
            while commit_idx < self.scheduler_ctx.finality_idx()
                invariant self.wf(), output.outcomes.len() == commit_idx, commit_idx <= self.block_size,
                    committer.state.log().len() == old(committer).state.log().len() + commit_idx,
            {
                let Some(tx_result) = self.tx_results[commit_idx].lock().take() else {
                    self.abort(AbortReason::ParallelError {
                        txid: commit_idx,
                        message: "finalized transaction has no execution result",
                    });
                    return CommitLoopResult { committed: output, error: None };
                };
                let Ok(result) = tx_result.execute_result else {
                    // A transaction with an EVM error must never reach finality. This is a
                    // parallel scheduler inconsistency, so replay it from the committed state
                    // instead of trusting the speculative result.
                    self.abort(AbortReason::ParallelError {
                        txid: commit_idx,
                        message: "failed transaction reached commit",
                    });
                    return CommitLoopResult { committed: output, error: None };
                };
                let commit_start = Instant::now();
                let outcome =
                    committer.commit(commit_idx, &self.txs[commit_idx], result, &mut output);
                self.metrics.record_commit_time(commit_start.elapsed());
                match outcome {
                    Ok(CommitOutcome::Committed(committed)) => {
                        let next_commit_idx = committed.index();
                        self.scheduler_ctx.publish_commit(next_commit_idx);
                        // Publish committed state before releasing work that may require it.
                        self.tx_dependency.commit(commit_idx);
                        commit_idx = next_commit_idx;
                    }
                    Ok(CommitOutcome::NeedsSequentialFallback) => {
                        // The problematic transaction remains uncommitted. Keep the cursor at its
                        // index so sequential fallback revalidates it before processing the suffix.
                        self.abort(AbortReason::FallbackSequential);
                        return CommitLoopResult { committed: output, error: None };
                    }
                    Err(error) => {
                        // Wake every scheduler thread immediately, while also returning the exact
                        // txid and database error directly to the scoped-thread caller.
                        self.abort(AbortReason::CommitError(error.clone()));
                        return CommitLoopResult { committed: output, error: Some(error) };
                    }
                }
            }
            if commit_idx > previous_commit_idx {
                thread::yield_now();
            } else {
                self.commit_wait.wait_while(STALL_TIMEOUT, || -> (b: bool) {
                    !self.is_aborted() && commit_idx >= self.scheduler_ctx.finality_idx()
                });
            }
        }
        CommitLoopResult { committed: output, error: None }
    }
}
} // verus!
fn main() {}
