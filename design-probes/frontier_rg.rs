use vstd::prelude::*;
verus! {

// ---- trusted stand-ins: atomics with rely/guarantee protocol specs ----
pub enum Ordering { Relaxed, Release, Acquire, AcqRel, SeqCst }

#[verifier::external_body]
pub struct AtomicBool { x: std::sync::atomic::AtomicBool }
impl AtomicBool {
    /// prophecy-free monotone fact: some store(true) happened-before an observation of true
    pub uninterp spec fn ever_true(&self) -> bool;
    #[verifier::external_body]
    pub fn load(&self, o: Ordering) -> (b: bool) ensures b ==> self.ever_true() { unimplemented!() }
    #[verifier::external_body]
    pub fn store(&self, v: bool, o: Ordering) requires v == true, ensures self.ever_true() { unimplemented!() }
}

#[verifier::external_body]
pub struct AtomicUsize { x: std::sync::atomic::AtomicUsize }
impl AtomicUsize {
    /// invariant every stored value satisfies (guarantee) and every loaded value satisfies (rely)
    pub uninterp spec fn inv(&self, v: usize) -> bool;
    #[verifier::external_body]
    pub fn load(&self, o: Ordering) -> (v: usize) ensures self.inv(v) { unimplemented!() }
    #[verifier::external_body]
    pub fn fetch_max(&self, v: usize, o: Ordering) -> (p: usize) requires self.inv(v), ensures self.inv(p) { unimplemented!() }
}

pub fn max(a: usize, b: usize) -> (r: usize) ensures r == (if a >= b { a } else { b }) { if a >= b { a } else { b } }

struct ExecutionFrontier {
    executed: Vec<AtomicBool>,
    frontier: AtomicUsize,
}

impl ExecutionFrontier {
    spec fn prefix_set(&self, n: int) -> bool {
        forall|i: int| 0 <= i < n ==> (#[trigger] self.executed@[i]).ever_true()
    }
    /// R/G invariant of the frontier cell: a published frontier only covers flags that have been set
    spec fn wf(&self) -> bool {
        forall|v: usize| #[trigger] self.frontier.inv(v) <==> (v <= self.executed.len() && self.prefix_set(v as int))
    }

    #[verifier::exec_allows_no_decreases_clause]
    fn advance(&self, mut start: usize) 
        requires self.wf(), self.prefix_set(start as int), start <= self.executed.len(),
    {
        loop
            invariant self.wf(), self.prefix_set(start as int), start <= self.executed.len(),
        {
            let mut end = start;
            while end < self.executed.len() && self.executed[end].load(Ordering::Acquire)
                invariant self.wf(), start <= end <= self.executed.len(), self.prefix_set(end as int),
                decreases self.executed.len() - end,
            {
                end += 1;
            }
            if end == start {
                return;
            }

            let current = self.frontier.fetch_max(end, Ordering::AcqRel);
            start = max(current, end);
        }
    }

    fn publish(&self, index: usize) 
        requires self.wf(), index < self.executed.len(),
    {
        let frontier = self.frontier.load(Ordering::Acquire);
        if index < frontier {
            return;
        }

        self.executed[index].store(true, Ordering::Release);
        // Reload after publishing. The frontier may have reached `index` between the first load
        // and the store; using the stale value would leave the newly filled gap unadvanced.
        let frontier = self.frontier.load(Ordering::Acquire);
        if index == frontier {
            self.advance(frontier);
        }
    }

    fn current(&self) -> (r: usize) 
        requires self.wf(),
        ensures r <= self.executed.len(), self.prefix_set(r as int),
    {
        let frontier = self.frontier.load(Ordering::Acquire);
        // Lock-free helpers may observe a completion whose publishing worker has not advanced the
        // frontier yet. Help it here so a delayed publisher cannot stall validation progress.
        if frontier < self.executed.len() && self.executed[frontier].load(Ordering::Acquire) {
            self.advance(frontier);
            return self.frontier.load(Ordering::Acquire);
        }
        frontier
    }
}

} // verus!
fn main() {}
