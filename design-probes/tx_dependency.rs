use vstd::prelude::*;
use std::ops::{Deref, DerefMut};
use std::collections::HashSet;
use vstd::std_specs::iter::IteratorSpec;
verus! {
pub type TxId = usize;
pub enum Ordering { Relaxed, Release, Acquire, AcqRel, SeqCst }
#[verifier::external_body] pub struct AtomicUsize { p: u8 }
impl AtomicUsize {
    /// issued-fact: a fetch_min(v') with v' <= v has been issued
    pub uninterp spec fn rewound_le(&self, v: usize) -> bool;
    #[verifier::external_body] pub fn load(&self, o: Ordering) -> usize { unimplemented!() }
    #[verifier::external_body] pub fn fetch_add(&self, d: usize, o: Ordering) -> usize { unimplemented!() }
    #[verifier::external_body] pub fn fetch_min(&self, v: usize, o: Ordering) -> usize ensures self.rewound_le(v) { unimplemented!() }
}
#[derive(Clone, Copy)] pub struct PublishedCursorReader<'a> { pub c: &'a AtomicUsize }
impl PublishedCursorReader<'_> {
    pub uninterp spec fn observed(&self, v: usize) -> bool;
    #[verifier::external_body] pub fn get(self) -> (v: usize) ensures self.observed(v) { unimplemented!() }
}
/// TRUSTED parking_lot mutex: havoc on acquisition, constrained by a lock invariant
#[verifier::external_body] #[verifier::reject_recursive_types(T)] pub struct Mutex<T> { x: core::marker::PhantomData<T> }
#[verifier::external_body] #[verifier::reject_recursive_types(T)] pub struct MutexGuard<'a, T> { x: core::marker::PhantomData<&'a T> }
impl<'a, T> MutexGuard<'a, T> { pub uninterp spec fn view(&self) -> T; }
impl<T> Mutex<T> {
    pub uninterp spec fn inv(&self, v: T) -> bool;
    #[verifier::external_body] pub fn lock(&self) -> (g: MutexGuard<'_, T>) ensures self.inv(g@) { unimplemented!() }
}
impl<'a, T> Deref for MutexGuard<'a, T> { type Target = T; #[verifier::external_body] fn deref(&self) -> (r: &T) ensures *r == self@ { unimplemented!() } }
impl<'a, T> DerefMut for MutexGuard<'a, T> { #[verifier::external_body] fn deref_mut(&mut self) -> (r: &mut T) ensures *r == old(self)@, *final(r) == final(self)@ { unimplemented!() } }

/// ASSUMED (true of std HashSet iteration; vstd states only length, no-duplicates and coverage):
/// every yielded element is a member.
#[verifier::external_body] pub proof fn axiom_hashset_iter_members(all: Seq<&TxId>, s: Set<TxId>)
    requires all.len() == s.len(), all.no_duplicates(), forall|k: TxId| s.contains(k) ==> exists|i: int| 0 <= i < all.len() && *(#[trigger] all[i]) == k
    ensures forall|i: int| 0 <= i < all.len() ==> s.contains(*(#[trigger] all[i])) {}
pub struct DependentState { pub onboard: bool, pub dependency: Option<TxId> }
pub struct TxDependency {
    pub num_txs: usize,
    pub dependent_state: Vec<Mutex<DependentState>>,
    pub affect_txs: Vec<Mutex<HashSet<TxId>>>,
    pub index: AtomicUsize,
}
impl TxDependency {
    pub open spec fn wf(&self) -> bool {
        &&& self.dependent_state.len() == self.num_txs && self.affect_txs.len() == self.num_txs
        &&& forall|i: int, s: HashSet<TxId>| 0 <= i < self.num_txs ==> (#[trigger] self.affect_txs@[i].inv(s) <==> forall|t: TxId| s@.contains(t) ==> t < self.num_txs)
    }
    #[verifier::loop_isolation(false)]
    pub fn remove(&self, txid: TxId, pop_next: bool) -> (r: Option<TxId>) 
        requires self.wf(), txid < self.num_txs, txid + 1 < usize::MAX,
        ensures r matches Some(t) ==> pop_next && t == txid + 1,
    {
        let mut next = None;
        let mut affects = self.affect_txs[txid].lock();
        proof { assert(self.affect_txs@[txid as int].inv(affects@)); }
        if affects.is_empty() {
            return next;
        }
        let it_ = affects.iter();
        let ghost all = it_.remaining();
        proof { axiom_hashset_iter_members(all, affects@@); }
        for tx in it: it_
            invariant self.wf(), txid < self.num_txs, it.snapshot@.remaining() == all,
                forall|i: int| 0 <= i < all.len() ==> *(#[trigger] all[i]) < self.num_txs,
                0 <= it.index@ <= all.len(),
                next matches Some(t) ==> pop_next && t == txid + 1,
        { proof { assert(all[it.index@] == tx); } let tx = *tx;
            let mut dependent = self.dependent_state[tx].lock();
            let ghost pre = dependent@;
            let ghost next0 = next;
            if dependent.dependency == Some(txid) {
                dependent.dependency = None;
                if dependent.onboard {
                    if pop_next && tx == txid + 1 && self.index.load(Ordering::Relaxed) > tx {
                        dependent.onboard = false;
                        next = Some(tx);
                    } else {
                        self.index.fetch_min(tx, Ordering::Relaxed);
                    }
                }
            }
            proof {
                assert(pre.dependency != Some(txid) ==> dependent@ == pre && next == next0);
                assert(pre.dependency == Some(txid) ==> dependent@.dependency is None);
                assert(pre.dependency == Some(txid) && pre.onboard ==> (next == Some(tx) && !dependent@.onboard && pop_next && tx == txid + 1) || (self.index.rewound_le(tx) && dependent@.onboard && next == next0));
                assert(pre.dependency == Some(txid) && !pre.onboard ==> !dependent@.onboard && next == next0);
            }
        }
        affects.clear();
        next
    }
    pub fn commit(&self, txid: TxId) 
        requires self.wf(), txid + 1 < usize::MAX,
    {
        let next = txid + 1;
        if next < self.num_txs {
            let mut state = self.dependent_state[next].lock();
            let ghost pre = state@;
            if state.onboard {
                state.dependency = None;
                self.index.fetch_min(next, Ordering::Relaxed);
            }
            proof { assert(pre.onboard ==> state@.dependency is None && state@.onboard && self.index.rewound_le(next)); assert(!pre.onboard ==> state@ == pre); }
        }
    }
    pub fn key_tx(&self, txid: TxId, commit_idx: PublishedCursorReader<'_>) 
        requires self.wf(), txid < self.num_txs,
    {
        let mut state = self.dependent_state[txid].lock();
        let ghost pre = state@;
        if txid > commit_idx.get() {
            state.dependency = Some(txid);
        }
        if !state.onboard {
            state.onboard = true;
        }
        if state.dependency.is_none() {
            self.index.fetch_min(txid, Ordering::Relaxed);
        }
        proof { assert(state@.onboard); assert(state@.dependency is None ==> self.index.rewound_le(txid)); assert(exists|c: usize| commit_idx.observed(c) && ((txid > c) ==> state@.dependency == Some(txid)) && ((txid <= c) ==> state@.dependency == pre.dependency)); }
    }
    pub fn next(&self) -> (r: Option<TxId>) 
        requires self.wf(),
        ensures r matches Some(i) ==> i < self.num_txs,
    {
        if self.index.load(Ordering::Relaxed) >= self.num_txs {
            return None;
        }
        let index = self.index.fetch_add(1, Ordering::Relaxed);
        if index >= self.num_txs {
            return None;
        }
        let mut state = self.dependent_state[index].lock();
        let ghost pre = state@;
        if state.onboard && state.dependency.is_none() {
            state.onboard = false;
            proof { assert(pre.onboard && pre.dependency is None && !state@.onboard && state@.dependency == pre.dependency); }
            return Some(index)
        }
        proof { assert(state@ == pre); }
        None
    }
}
} // verus!
fn main() {}
