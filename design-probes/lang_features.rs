use vstd::prelude::*;
use std::collections::{HashMap, HashSet};
use std::cmp::Ordering;
verus! {

pub enum Outcome { Executed(u64), Skipped(u8) }
pub enum EVMError { Transaction(u8), Custom(u8) }
pub struct GErr { pub txid: usize, pub error: EVMError }
pub struct Out { pub outcomes: Vec<Outcome>, pub error: Option<GErr> }

fn suffix(start: usize, block_size: usize, txs: &Vec<u64>,
    mut transact: impl FnMut(usize, &u64) -> Result<u64, EVMError>) -> (r: Out)
    requires start <= block_size, block_size == txs.len(),
       forall|i: usize, t: &u64| transact.requires((i, t)),
    ensures r.error matches Some(e) ==> e.txid == start + r.outcomes.len(),
            r.error is None ==> r.outcomes.len() == block_size - start,
{
    let mut outcomes = Vec::with_capacity(block_size - start);
    for txid in start..block_size
        invariant outcomes.len() == txid - start, block_size == txs.len(), start <= block_size,
          forall|i: usize, t: &u64| transact.requires((i, t)),
    {
        let outcome = match transact(txid, &txs[txid]) {
            Ok(result) => Outcome::Executed(result),
            Err(EVMError::Transaction(error)) => {
                Outcome::Skipped(error)
            }
            Err(error) => {
                return Out {
                    outcomes,
                    error: Some(GErr { txid, error }),
                };
            }
        };
        outcomes.push(outcome);
    }
    Out { outcomes, error: None }
}

fn cmpn(a: u64, b: u64) -> (r: u8) 
  ensures a > b ==> r == 1, a < b ==> r == 2, a == b ==> r == 0
{
    match a.cmp(&b) {
        Ordering::Greater => 1,
        Ordering::Less => 2,
        _ => 0,
    }
}

fn once(f: impl FnOnce(u64) -> Result<(), u8>, c: bool) -> (r: Result<(), u8>)
    requires c ==> f.requires((7u64,))
    ensures !c ==> r is Err
{
    let ok: Result<(), u8> = if c { Ok(()) } else { Err(3) };
    ok?;
    f(7)
}

fn hs(a: &HashSet<u64>, b: &HashSet<u64>) -> (r: bool)
{
    let mut w = false;
    for location in a.iter() {
        if !b.contains(location) {
            w = true;
            break;
        }
    }
    w
}

fn asserts(a: usize, b: usize) 
  requires a == b
{
    assert!(a == b, "x");
    debug_assert!(a == b);
}

} // verus!
fn main() {}
