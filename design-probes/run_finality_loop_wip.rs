use vstd::prelude::*;
use std::ops::{Deref, DerefMut};
verus! {
pub type TxId = usize;
#[verifier::external_body] #[verifier::reject_recursive_types(T)] pub struct Mutex<T> { x: core::marker::PhantomData<T> }
#[verifier::external_body] #[verifier::reject_recursive_types(T)] pub struct MutexGuard<'a, T> { x: core::marker::PhantomData<&'a T> }
impl<'a, T> MutexGuard<'a, T> { pub uninterp spec fn view(&self) -> T; }
impl<'a, T> Deref for MutexGuard<'a, T> { type Target = T; #[verifier::external_body] fn deref(&self) -> (r: &T) ensures *r == self@ { unimplemented!() } }
impl<'a, T> DerefMut for MutexGuard<'a, T> { #[verifier::external_body] fn deref_mut(&mut self) -> (r: &mut T) ensures *r == old(self)@, *final(r) == final(self)@ { unimplemented!() } }
pub fn drop<T>(t: T) {}
#[derive(Debug, Clone, Eq, PartialEq, Default, Structural)]
pub enum TransactionStatus { #[default] Initial, Executing, Executed, Validating, Unconfirmed, Conflict, Finality }
pub struct TxState { pub status: TransactionStatus, pub incarnation: usize, pub dependency: Option<TxId> }
#[verifier::external_body] pub struct Instant { p: u8 }
impl Instant { #[verifier::external_body] pub fn now() -> Instant { unimplemented!() } #[verifier::external_body] pub fn elapsed(&self) -> u64 { unimplemented!() } }
#[verifier::external_body] pub struct Hist { p: u8 }
impl Hist { #[verifier::external_body] pub fn record(&self, d: usize) { unimplemented!() } }
#[verifier::external_body] pub struct Metrics { p: u8 }
impl Metrics { #[verifier::external_body] pub fn dependency_distance_histogram(&self) -> Hist { unimplemented!() } #[verifier::external_body] pub fn record_finalized(&self, i: usize, d: bool) { unimplemented!() } }
#[verifier::external_body] pub struct SchedulerContext { p: u8 }
impl SchedulerContext {
    pub uninterp spec fn fin_published(&self, v: usize) -> bool;   // issued-fact / initial 0
    #[verifier::external_body] pub fn publish_finality(&self, v: usize) ensures self.fin_published(v) { unimplemented!() }
}
#[verifier::external_body] pub struct WaitSlot { p: u8 }
impl WaitSlot {
    #[verifier::external_body] pub fn register_current_thread(&self) { unimplemented!() }
    #[verifier::external_body] pub fn notify(&self) { unimplemented!() }
    #[verifier::external_body] pub fn wait_while<F: FnMut() -> bool>(&self, t: u64, blocked: F) requires blocked.requires(()) { unimplemented!() }
}
pub mod thread { use super::*; #[verifier::external_body] pub fn yield_now() { unimplemented!() } }
pub const STALL_TIMEOUT: u64 = 8;
pub struct Scheduler { pub block_size: usize, pub tx_states: Vec<Mutex<TxState>>, pub scheduler_ctx: SchedulerContext, pub finality_wait: WaitSlot, pub commit_wait: WaitSlot, pub metrics: Metrics }
impl Scheduler {
    pub open spec fn wf(&self) -> bool { self.tx_states.len() == self.block_size }
    #[verifier::external_body] pub fn is_aborted(&self) -> bool { unimplemented!() }
    /// contract proved in U04 (restated)
    #[verifier::external_body]
    pub fn lock_finality_candidate(&self, finality_idx: usize, lower_ts: usize) -> (r: Option<(MutexGuard<'_, TxState>, usize)>)
        ensures r matches Some((g, e)) ==> finality_idx < self.block_size && g@.status == TransactionStatus::Unconfirmed && e >= lower_ts,
    { unimplemented!() }

    #[verifier::exec_allows_no_decreases_clause]
    fn run_finality_loop(&self) 
        requires self.wf(), self.scheduler_ctx.fin_published(0),
    {
        self.finality_wait.register_current_thread();
        let mut last_progress = Instant::now();
        let mut finality_idx = 0;
        let mut lower_ts = 0;
        let dependency_distance = self.metrics.dependency_distance_histogram();
        while !self.is_aborted() && finality_idx < self.block_size
            invariant self.wf(), finality_idx <= self.block_size, self.scheduler_ctx.fin_published(finality_idx),
        {
            let previous_finality_idx = finality_idx;
            while let Some((mut tx_state, effective_lower_ts)) =
                self.lock_finality_candidate(finality_idx, lower_ts)
                invariant self.wf(), finality_idx <= self.block_size, previous_finality_idx <= finality_idx, self.scheduler_ctx.fin_published(finality_idx),
            {
                lower_ts = effective_lower_ts;
                let incarnation = tx_state.incarnation;
                let dependency = tx_state.dependency;
                tx_state.status = TransactionStatus::Finality;
                drop(tx_state);

                let next_finality_idx = finality_idx + 1;
                self.scheduler_ctx.publish_finality(next_finality_idx);
                if finality_idx == previous_finality_idx {
                    // Start commit as soon as the first transaction in this batch is visible.
                    self.commit_wait.notify();
                }

                self.metrics.record_finalized(incarnation, dependency.is_some());
                if let Some(dep_id) = dependency {
                    dependency_distance.record(finality_idx - dep_id);
                }
                finality_idx = next_finality_idx;
            }
            let progressed = finality_idx > previous_finality_idx;
            if progressed {
                last_progress = Instant::now();
                if finality_idx - previous_finality_idx > 1 {
                    // Commit may have caught the first notification while this batch was still
                    // publishing. Wake it once more for the completed suffix.
                    self.commit_wait.notify();
                }
                thread::yield_now();
            } else {
                self.finality_wait.wait_while(STALL_TIMEOUT, || -> (b: bool) {
                    !self.is_aborted() &&
                        self.lock_finality_candidate(finality_idx, lower_ts).is_none()
                });
            }

            if last_progress.elapsed() > STALL_TIMEOUT {
                last_progress = Instant::now();
            }
        }
    }
}
} // verus!
fn main() {}
