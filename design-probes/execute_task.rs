use vstd::prelude::*;
use std::ops::{Deref, DerefMut};
use std::collections::{HashMap, HashSet};
use vstd::std_specs::iter::IteratorSpec;
verus! {

pub type TxId = usize;
#[derive(PartialEq, Eq, Structural, Clone, Copy, Hash)] pub struct Address(pub u64);
#[derive(PartialEq, Eq, Structural, Clone, Copy)] pub struct B256(pub u64);
#[derive(PartialEq, Eq, Structural, Clone, Copy, Hash)] pub struct U256(pub u64);
#[derive(PartialEq, Eq, Structural, Clone, Copy)] pub struct Bytecode(pub u64);
impl Bytecode { pub fn clone(&self) -> (r: Self) ensures r == *self { *self } }

#[derive(Clone, PartialEq, Eq, Structural)]
pub struct TxVersion { pub txid: TxId, pub incarnation: usize }
impl TxVersion { pub fn clone(&self) -> (r: Self) ensures r == *self { TxVersion { txid: self.txid, incarnation: self.incarnation } } pub fn new(txid: TxId, incarnation: usize) -> (r: Self) ensures r.txid == txid, r.incarnation == incarnation { Self { txid, incarnation } } }
pub struct BeneficiaryReadVersion { pub o: u64 }
pub enum ReadVersion { MvMemory(TxVersion), Beneficiary(BeneficiaryReadVersion), Storage }
#[derive(Clone, Copy)]
pub enum MemoryValue { Code(Bytecode), Storage(U256), StorageReset }
pub struct MemoryEntry { pub incarnation: usize, pub data: MemoryValue, pub estimate: bool }
#[derive(Clone, PartialEq, Eq, Structural, Hash)]
pub enum LocationAndType { Basic(Address), Storage(Address, U256), StorageReset(Address), Code(Address) }

// ---- trusted stand-ins: BTreeMap / DashMap / maps ----
#[verifier::external_body] #[verifier::reject_recursive_types(V)]
pub struct BTreeMap<V> { p: core::marker::PhantomData<V> }
#[verifier::external_body] #[verifier::reject_recursive_types(V)]
pub struct BRange<'a, V> { p: core::marker::PhantomData<&'a V> }
impl<V> BTreeMap<V> {
    pub uninterp spec fn view(&self) -> Map<TxId, V>;
    #[verifier::external_body]
    pub fn range(&self, r: core::ops::RangeTo<TxId>) -> (it: BRange<'_, V>) ensures it.map() == self@, it.bound() == r.end { unimplemented!() }
}
pub open spec fn latest_before<V>(m: Map<TxId, V>, b: TxId) -> Option<TxId> {
    if exists|k: TxId| m.contains_key(k) && k < b {
        Some(choose|k: TxId| m.contains_key(k) && k < b && forall|j: TxId| m.contains_key(j) && j < b ==> j <= k)
    } else { None }
}
impl<'a, V> BRange<'a, V> {
    pub uninterp spec fn map(&self) -> Map<TxId, V>;
    pub uninterp spec fn bound(&self) -> TxId;
    #[verifier::external_body]
    pub fn next_back(&mut self) -> (r: Option<(&'a TxId, &'a V)>)
        ensures match latest_before(old(self).map(), old(self).bound()) {
            Some(k) => r matches Some((kk, vv)) && *kk == k && *vv == old(self).map()[k] && k < old(self).bound() && old(self).map().contains_key(k),
            None => r is None }
    { unimplemented!() }
}
#[verifier::external_body] pub struct MVMemory { p: u8 }
#[verifier::external_body] #[verifier::reject_recursive_types(V)] pub struct Ref<'a, V> { p: core::marker::PhantomData<&'a V> }
impl<'a, V> Ref<'a, V> { pub uninterp spec fn view(&self) -> V; }
impl<'a, V> Deref for Ref<'a, V> { type Target = V;
    #[verifier::external_body] fn deref(&self) -> (r: &V) ensures *r == self@ { unimplemented!() } }
impl MVMemory {
    pub uninterp spec fn view(&self) -> Map<LocationAndType, BTreeMap<MemoryEntry>>;
    #[verifier::external_body]
    pub fn get(&self, k: &LocationAndType) -> (r: Option<Ref<'_, BTreeMap<MemoryEntry>>>)
        ensures match r { Some(x) => self@.contains_key(*k) && x@ == self@[*k], None => !self@.contains_key(*k) } { unimplemented!() }
}
#[verifier::external_body] pub struct ReadSet { p: u8 }
impl ReadSet { pub uninterp spec fn view(&self) -> Map<LocationAndType, ReadVersion>;
    #[verifier::external_body] pub fn insert(&mut self, k: LocationAndType, v: ReadVersion) -> (o: Option<ReadVersion>) ensures final(self)@ == old(self)@.insert(k, v) { unimplemented!() } }
#[verifier::external_body] pub struct TxSet { p: u8 }
impl TxSet { pub uninterp spec fn view(&self) -> Set<TxId>;
    #[verifier::external_body] pub fn insert(&mut self, k: TxId) -> (b: bool) ensures final(self)@ == old(self)@.insert(k) { unimplemented!() } }

pub trait DatabaseRef { type Error;
    spec fn code_spec(&self, h: B256) -> Result<Bytecode, Self::Error>;
    fn code_by_hash_ref(&self, h: B256) -> (r: Result<Bytecode, Self::Error>) ensures r == self.code_spec(h);
    spec fn storage_spec(&self, a: Address, i: U256) -> Result<U256, Self::Error>;
    fn storage_ref(&self, a: Address, i: U256) -> (r: Result<U256, Self::Error>) ensures r == self.storage_spec(a, i);
}
pub assume_specification<T, F: FnOnce(T) -> bool>[ Option::<T>::is_none_or ](o: Option<T>, f: F) -> (r: bool)
    requires o matches Some(x) ==> f.requires((x,)),
    ensures o is None ==> r, o matches Some(x) ==> f.ensures((x,), r);
impl U256 { pub const ZERO: U256 = U256(0); }

pub open spec fn latest_kind(mv: Map<LocationAndType, BTreeMap<MemoryEntry>>, loc: LocationAndType, txid: TxId, want_reset: bool) -> Option<TxId> {
    if mv.contains_key(loc) {
        match latest_before(mv[loc]@, txid) {
            Some(k) => if (want_reset && mv[loc]@[k].data is StorageReset) || (!want_reset && mv[loc]@[k].data is Storage) { Some(k) } else { None },
            None => None,
        }
    } else { None }
}
pub open spec fn ver_of(mv: Map<LocationAndType, BTreeMap<MemoryEntry>>, loc: LocationAndType, w: Option<TxId>) -> ReadVersion {
    match w { Some(k) => ReadVersion::MvMemory(TxVersion { txid: k, incarnation: mv[loc]@[k].incarnation }), None => ReadVersion::Storage }
}
pub open spec fn est(mv: Map<LocationAndType, BTreeMap<MemoryEntry>>, loc: LocationAndType, w: Option<TxId>) -> Set<TxId> {
    match w { Some(k) => if mv[loc]@[k].estimate { set![k] } else { Set::empty() }, None => Set::empty() }
}





pub fn max(a: usize, b: usize) -> (r: usize) ensures r == (if a >= b { a } else { b }) { if a >= b { a } else { b } }
pub assume_specification<T, U, F: FnOnce(T) -> U>[ Option::<T>::map_or ](o: Option<T>, d: U, f: F) -> (r: U)
    requires o matches Some(x) ==> f.requires((x,)),
    ensures o is None ==> r == d, o matches Some(x) ==> f.ensures((x,), r);
pub assume_specification<T, F: FnOnce(&T) -> bool>[ Option::<T>::filter ](o: Option<T>, f: F) -> (r: Option<T>)
    requires o matches Some(x) ==> f.requires((&x,)),
    ensures r is Some ==> r == o;
pub fn drop<T>(t: T) {}
pub assume_specification<T: std::default::Default>[ std::mem::take ](t: &mut T) -> (r: T) ensures r == *old(t);

#[verifier::external_body] proof fn axiom_loc_key_model() ensures vstd::std_specs::hash::obeys_key_model::<LocationAndType>() {}

// parking_lot Mutex stand-in
#[verifier::external_body] #[verifier::reject_recursive_types(T)] pub struct Mutex<T> { x: core::marker::PhantomData<T> }
#[verifier::external_body] #[verifier::reject_recursive_types(T)] pub struct MutexGuard<'a, T> { x: core::marker::PhantomData<&'a T> }
impl<'a, T> MutexGuard<'a, T> { pub uninterp spec fn view(&self) -> T; }
impl<T> Mutex<T> { #[verifier::external_body] pub fn lock(&self) -> (g: MutexGuard<'_, T>) { unimplemented!() } }
impl<'a, T> Deref for MutexGuard<'a, T> { type Target = T; #[verifier::external_body] fn deref(&self) -> (r: &T) ensures *r == self@ { unimplemented!() } }
impl<'a, T> DerefMut for MutexGuard<'a, T> { #[verifier::external_body] fn deref_mut(&mut self) -> (r: &mut T) ensures *r == old(self)@, *final(r) == final(self)@ { unimplemented!() } }

#[derive(Debug, Clone, Eq, PartialEq, Default, Structural)]
pub enum TransactionStatus { #[default] Initial, Executing, Executed, Validating, Unconfirmed, Conflict, Finality }
pub struct TxState { pub status: TransactionStatus, pub incarnation: usize, pub dependency: Option<TxId> }
pub enum EVMError<E> { Transaction(u8), Database(E), Custom(u8) }
pub struct SpeculativeResult { pub x: u64 }
pub struct TransactionResult<E> { pub read_set: HashMap<LocationAndType, ReadVersion>, pub write_set: HashSet<LocationAndType>, pub execute_result: Result<SpeculativeResult, EVMError<E>> }
pub enum Task { Execution(TxVersion), Validation(TxVersion) }
pub enum AbortReason { FatalEvmError(TxId), ParallelError { txid: TxId, message: &'static str }, FallbackSequential }

pub struct BeneficiaryValidation { pub valid: bool, pub dependency: Option<TxId> }
impl BeneficiaryValidation {
    pub fn is_valid(&self) -> (b: bool) ensures b == self.valid { self.valid }
    pub fn dependency(&self) -> (d: Option<TxId>) ensures d == self.dependency { self.dependency }
}
#[verifier::external_body] pub struct Beneficiary { p: u8 }
impl Beneficiary {
    pub uninterp spec fn chain_valid(&self, txid: TxId, e: BeneficiaryReadVersion) -> bool;
    #[verifier::external_body] pub fn validate(&self, txid: TxId, expected: &BeneficiaryReadVersion) -> (v: BeneficiaryValidation) ensures v.valid == self.chain_valid(txid, *expected), v.dependency matches Some(d) ==> d < txid { unimplemented!() }
    #[verifier::external_body] pub fn invalidate(&self, v: &TxVersion) -> bool { unimplemented!() }
    #[verifier::external_body] pub fn record_estimate(&self, v: &TxVersion) -> bool { unimplemented!() }
    #[verifier::external_body] pub fn record_execution(&self, v: &TxVersion, r: &SpeculativeResult) -> bool { unimplemented!() }
}
#[verifier::external_body] pub struct Metrics { p: u8 }
impl Metrics { #[verifier::external_body] pub fn record_execution_attempt(&self) { unimplemented!() } #[verifier::external_body] pub fn record_beneficiary_conflict(&self) { unimplemented!() } #[verifier::external_body] pub fn record_estimate_conflict(&self) { unimplemented!() } #[verifier::external_body] pub fn record_evm_error_conflict(&self) { unimplemented!() } #[verifier::external_body] pub fn record_validation_attempt(&self) { unimplemented!() }  #[verifier::external_body] pub fn record_version_conflict(&self) { unimplemented!() } }
#[verifier::external_body] pub struct SchedulerContext { p: u8 }
impl SchedulerContext {
    pub uninterp spec fn stamp_taken(&self) -> bool;
    pub uninterp spec fn is_stamp(&self, t: usize) -> bool;
    #[verifier::external_body] pub fn logical_timestamp(&self) -> (t: usize) ensures self.is_stamp(t), self.stamp_taken() { unimplemented!() }
    pub uninterp spec fn rewound_le(&self, i: usize) -> bool;
    #[verifier::external_body] pub fn rewind_validation_to(&self, i: usize) ensures self.rewound_le(i) { unimplemented!() }
    #[verifier::external_body] pub fn executed(&self, i: usize) { unimplemented!() }
    #[verifier::external_body] pub fn committed_idx(&self) -> usize { unimplemented!() }
    #[verifier::external_body] pub fn commit_cursor(&self) -> CursorReader { unimplemented!() }
    #[verifier::external_body] pub fn unconfirmed(&self, i: usize, ts: usize) requires self.is_stamp(ts) { unimplemented!() }
    #[verifier::external_body] pub fn finality_idx(&self) -> usize { unimplemented!() }
}
#[verifier::external_body] pub struct TxDependency { p: u8 }
pub struct CursorReader { pub p: u8 }
impl TxDependency { #[verifier::external_body] pub fn remove(&self, txid: TxId, pop: bool) -> Option<TxId> { unimplemented!() } #[verifier::external_body] pub fn key_tx(&self, txid: TxId, c: CursorReader) { unimplemented!() } #[verifier::external_body] pub fn add(&self, txid: TxId, dep: Option<TxId>) { unimplemented!() } }
#[verifier::external_body] pub struct WaitSlot { p: u8 }
impl WaitSlot { #[verifier::external_body] pub fn notify(&self) { unimplemented!() } }


pub struct TxEnv { pub x: u64 }
impl TxEnv { pub fn clone(&self) -> (r: Self) { TxEnv { x: self.x } } }
pub struct IncarnationAccesses { pub read_set: HashMap<LocationAndType, ReadVersion>, pub write_set: HashSet<LocationAndType>, pub blocking_txs: HashSet<TxId>, pub blocked_by_beneficiary: bool }
impl IncarnationAccesses { #[verifier::external_body] pub fn is_blocked(&self) -> (b: bool) ensures b == (self.blocking_txs@.len() != 0) { unimplemented!() } }
pub struct IncarnationExecution<E> { pub result: Result<SpeculativeResult, EVMError<E>>, pub accesses: IncarnationAccesses }

pub trait ParallelTransactionExecutor<DB: DatabaseRef> {
    fn execute_incarnation(&mut self, version: TxVersion, tx: TxEnv) -> (r: IncarnationExecution<DB::Error>)
        ensures r.result is Err ==> r.accesses.write_set@.len() == 0;
}
#[verifier::external_body] #[verifier::reject_recursive_types(V)] pub struct RefMut<'a, V> { p: core::marker::PhantomData<&'a V> }
impl<'a, V> RefMut<'a, V> { pub uninterp spec fn view(&self) -> V; }
impl<'a, V> Deref for RefMut<'a, V> { type Target = V; #[verifier::external_body] fn deref(&self) -> (r: &V) ensures *r == self@ { unimplemented!() } }
impl<'a, V> DerefMut for RefMut<'a, V> { #[verifier::external_body] fn deref_mut(&mut self) -> (r: &mut V) ensures *r == old(self)@, *final(r) == final(self)@ { unimplemented!() } }
impl MVMemory { #[verifier::external_body] pub fn get_mut(&self, k: &LocationAndType) -> Option<RefMut<'_, BTreeMap<MemoryEntry>>> { unimplemented!() } }
impl<V> BTreeMap<V> { #[verifier::external_body] pub fn remove(&mut self, k: &TxId) -> Option<V> { unimplemented!() } }

#[verifier::reject_recursive_types(DB)]
pub struct Scheduler<DB: DatabaseRef> {
    pub txs: Vec<TxEnv>,
    pub tx_states: Vec<Mutex<TxState>>,
    pub tx_results: Vec<Mutex<Option<TransactionResult<DB::Error>>>>,
    pub tx_dependency: TxDependency,
    pub mv_memory: MVMemory,
    pub scheduler_ctx: SchedulerContext,
    pub metrics: Metrics,
}
impl<DB: DatabaseRef> Scheduler<DB> {
    #[verifier::external_body] pub fn abort(&self, r: AbortReason) { unimplemented!() }
    #[verifier::external_body] pub fn mark_mv_estimate(&self, txid: TxId, ws: &HashSet<LocationAndType>) { unimplemented!() }
    #[verifier::external_body] pub fn latest_unfinalized_blocker(&self, b: &HashSet<TxId>) -> (r: Option<TxId>) { unimplemented!() }
    #[verifier::external_body] pub fn execution_task(&self, id: TxId) -> Option<Task> { unimplemented!() }

    #[verifier::loop_isolation(false)]
    fn execute_task<WorkerDB>(
        &self,
        executor: &mut impl ParallelTransactionExecutor<WorkerDB>,
        beneficiary: &Beneficiary,
        tx_version: TxVersion,
    ) -> (task: Option<Task>)
    where
        WorkerDB: DatabaseRef<Error = DB::Error>,
    
        requires tx_version.txid < self.tx_states.len(), self.tx_results.len() == self.tx_states.len(), self.txs.len() == self.tx_states.len(), tx_version.txid + 1 < usize::MAX,
    {
        proof { axiom_loc_key_model(); }
        let TxVersion { txid, incarnation } = tx_version.clone();
        let mut tx_state = self.tx_states[txid].lock();
        // Cursor claims are advisory and may become stale after a rewind. The locked status and
        // incarnation are the authority for whether this task may execute.
        if tx_state.status != TransactionStatus::Executing {
            return None;
        }
        if tx_state.incarnation != incarnation {
            self.abort(AbortReason::ParallelError {
                txid,
                message: "inconsistent incarnation during execution",
            });
            return None;
        }
        self.metrics.record_execution_attempt();

        let tx_env = self.txs[txid].clone();
        let IncarnationExecution { result, accesses } =
            executor.execute_incarnation(tx_version.clone(), tx_env);

        // If this incarnation expands its write set, already validated suffix transactions may
        // have missed a new predecessor and validation must rewind to this transaction. Existing
        // dependency/rewind coverage is sufficient when the write set does not expand.
        let mut write_new_locations = false;
        let conflict;
        let mut next = None;
        match result {
            Ok(speculative_result) => {
                conflict = accesses.is_blocked();
                let IncarnationAccesses {
                    read_set,
                    write_set,
                    blocking_txs,
                    blocked_by_beneficiary,
                } = accesses;

                let mut last_result = self.tx_results[txid].lock();
                if let Some(last_result) = last_result.as_ref() {
                    for location in write_set.iter() {
                        if !last_result.write_set.contains(location) {
                            write_new_locations = true;
                            break;
                        }
                    }
                    for location in last_result.write_set.iter() {
                        if !write_set.contains(location) {
                            if let Some(mut written_transactions) = self.mv_memory.get_mut(location)
                        {
                            written_transactions.remove(&txid);
                        }}
                    }
                } else {
                    write_new_locations = true;
                }

                let history_published = if conflict {
                    beneficiary.record_estimate(&tx_version)
                } else {
                    beneficiary.record_execution(&tx_version, &speculative_result)
                };
                if !history_published {
                    self.abort(AbortReason::ParallelError {
                        txid,
                        message: "stale beneficiary history publication",
                    });
                    return None;
                }

                if conflict {
                    if blocked_by_beneficiary {
                        self.metrics.record_beneficiary_conflict();
                    } else {
                        self.metrics.record_estimate_conflict();
                    }
                    self.tx_dependency.add(txid, self.latest_unfinalized_blocker(&blocking_txs));
                } else {
                    // Clearing reverse edges may hand the immediate successor directly to this
                    // worker, avoiding a cursor round trip on a linear dependency chain.
                    next = self.tx_dependency.remove(txid, true);
                }
                *last_result = Some(TransactionResult {
                    read_set,
                    write_set,
                    execute_result: Ok(speculative_result),
                });
            }
            Err(e) => {
                debug_assert!(accesses.write_set.is_empty());
                let blocked_on_estimate = accesses.is_blocked();
                let IncarnationAccesses { blocking_txs, blocked_by_beneficiary, .. } = accesses;
                let invalid_transaction = matches!(e, EVMError::Transaction(_));
                conflict = true;
                let mut write_set = HashSet::new();

                let mut last_result = self.tx_results[txid].lock();
                if let Some(last_result) = last_result.as_mut() {
                    write_set = std::mem::take(&mut last_result.write_set);
                    self.mark_mv_estimate(txid, &write_set);
                }
                if !beneficiary.record_estimate(&tx_version) {
                    self.abort(AbortReason::ParallelError {
                        txid,
                        message: "stale beneficiary estimate publication",
                    });
                    return None;
                }
                *last_result = Some(TransactionResult {
                    read_set: Default::default(),
                    write_set,
                    execute_result: Err(e),
                });

                if blocked_on_estimate {
                    if blocked_by_beneficiary {
                        self.metrics.record_beneficiary_conflict();
                    } else {
                        self.metrics.record_estimate_conflict();
                    }
                    self.tx_dependency.add(txid, self.latest_unfinalized_blocker(&blocking_txs));
                } else {
                    self.metrics.record_evm_error_conflict();
                    if self.scheduler_ctx.committed_idx() == txid {
                        if invalid_transaction {
                            self.abort(AbortReason::FallbackSequential);
                        } else {
                            self.abort(AbortReason::FatalEvmError(txid));
                        }
                    }
                    self.tx_dependency.key_tx(txid, self.scheduler_ctx.commit_cursor());
                }
            }
        }

        tx_state.status =
            if conflict { TransactionStatus::Conflict } else { TransactionStatus::Executed };
        self.scheduler_ctx.executed(txid);

        if let Some(next) = next {
            self.scheduler_ctx.rewind_validation_to(txid);
            drop(tx_state);
            return self.execution_task(next);
        }
        if conflict {
            self.scheduler_ctx.rewind_validation_to(txid + 1);
        } else {
            if write_new_locations {
                self.scheduler_ctx.rewind_validation_to(txid);
            } else {
                proof { assert(!conflict && !write_new_locations); }
                tx_state.status = TransactionStatus::Validating;
                return Some(Task::Validation(TxVersion::new(txid, incarnation)));
            }
        }
        proof { assert(conflict ==> self.scheduler_ctx.rewound_le((txid + 1) as usize)); assert(!conflict ==> self.scheduler_ctx.rewound_le(txid)); }
        None
    }
}
} // verus!
fn main() {}
