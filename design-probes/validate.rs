use vstd::prelude::*;
use std::ops::{Deref, DerefMut};
use std::collections::{HashMap, HashSet};
use vstd::std_specs::iter::IteratorSpec;
verus! {

pub type TxId = usize;
#[derive(PartialEq, Eq, Structural, Clone, Copy)] pub struct Address(pub u64);
#[derive(PartialEq, Eq, Structural, Clone, Copy)] pub struct B256(pub u64);
#[derive(PartialEq, Eq, Structural, Clone, Copy)] pub struct U256(pub u64);
#[derive(PartialEq, Eq, Structural, Clone, Copy)] pub struct Bytecode(pub u64);
impl Bytecode { pub fn clone(&self) -> (r: Self) ensures r == *self { *self } }

#[derive(Clone, PartialEq, Eq, Structural)]
pub struct TxVersion { pub txid: TxId, pub incarnation: usize }
impl TxVersion { pub fn new(txid: TxId, incarnation: usize) -> (r: Self) ensures r.txid == txid, r.incarnation == incarnation { Self { txid, incarnation } } }
pub struct BeneficiaryReadVersion { pub o: u64 }
pub enum ReadVersion { MvMemory(TxVersion), Beneficiary(BeneficiaryReadVersion), Storage }
#[derive(Clone, Copy)]
pub enum MemoryValue { Code(Bytecode), Storage(U256), StorageReset }
pub struct MemoryEntry { pub incarnation: usize, pub data: MemoryValue, pub estimate: bool }
#[derive(Clone, PartialEq, Eq, Structural)]
pub enum LocationAndType { Basic(Address), Storage(Address, U256), StorageReset(Address), Code(Address) }

// ---- trusted stand-ins: BTreeMap / DashMap / maps ----
#[verifier::external_body] #[verifier::reject_recursive_types(V)]
pub struct BTreeMap<V> { p: core::marker::PhantomData<V> }
#[verifier::external_body] #[verifier::reject_recursive_types(V)]
pub struct BRange<'a, V> { p: core::marker::PhantomData<&'a V> }
impl<V> BTreeMap<V> {
    pub uninterp spec fn view(&self) -> Map<TxId, V>;
    #[verifier::external_body]
    pub fn range(&self, r: core::ops::RangeTo<TxId>) -> (it: BRange<'_, V>) ensures it.map() == self@, it.bound() == r.end { unimplemented!() }
}
pub open spec fn latest_before<V>(m: Map<TxId, V>, b: TxId) -> Option<TxId> {
    if exists|k: TxId| m.contains_key(k) && k < b {
        Some(choose|k: TxId| m.contains_key(k) && k < b && forall|j: TxId| m.contains_key(j) && j < b ==> j <= k)
    } else { None }
}
impl<'a, V> BRange<'a, V> {
    pub uninterp spec fn map(&self) -> Map<TxId, V>;
    pub uninterp spec fn bound(&self) -> TxId;
    #[verifier::external_body]
    pub fn next_back(&mut self) -> (r: Option<(&'a TxId, &'a V)>)
        ensures match latest_before(old(self).map(), old(self).bound()) {
            Some(k) => r matches Some((kk, vv)) && *kk == k && *vv == old(self).map()[k] && k < old(self).bound() && old(self).map().contains_key(k),
            None => r is None }
    { unimplemented!() }
}
#[verifier::external_body] pub struct MVMemory { p: u8 }
#[verifier::external_body] #[verifier::reject_recursive_types(V)] pub struct Ref<'a, V> { p: core::marker::PhantomData<&'a V> }
impl<'a, V> Ref<'a, V> { pub uninterp spec fn view(&self) -> V; }
impl<'a, V> Deref for Ref<'a, V> { type Target = V;
    #[verifier::external_body] fn deref(&self) -> (r: &V) ensures *r == self@ { unimplemented!() } }
impl MVMemory {
    pub uninterp spec fn view(&self) -> Map<LocationAndType, BTreeMap<MemoryEntry>>;
    #[verifier::external_body]
    pub fn get(&self, k: &LocationAndType) -> (r: Option<Ref<'_, BTreeMap<MemoryEntry>>>)
        ensures match r { Some(x) => self@.contains_key(*k) && x@ == self@[*k], None => !self@.contains_key(*k) } { unimplemented!() }
}
#[verifier::external_body] pub struct ReadSet { p: u8 }
impl ReadSet { pub uninterp spec fn view(&self) -> Map<LocationAndType, ReadVersion>;
    #[verifier::external_body] pub fn insert(&mut self, k: LocationAndType, v: ReadVersion) -> (o: Option<ReadVersion>) ensures final(self)@ == old(self)@.insert(k, v) { unimplemented!() } }
#[verifier::external_body] pub struct TxSet { p: u8 }
impl TxSet { pub uninterp spec fn view(&self) -> Set<TxId>;
    #[verifier::external_body] pub fn insert(&mut self, k: TxId) -> (b: bool) ensures final(self)@ == old(self)@.insert(k) { unimplemented!() } }

pub trait DatabaseRef { type Error;
    spec fn code_spec(&self, h: B256) -> Result<Bytecode, Self::Error>;
    fn code_by_hash_ref(&self, h: B256) -> (r: Result<Bytecode, Self::Error>) ensures r == self.code_spec(h);
    spec fn storage_spec(&self, a: Address, i: U256) -> Result<U256, Self::Error>;
    fn storage_ref(&self, a: Address, i: U256) -> (r: Result<U256, Self::Error>) ensures r == self.storage_spec(a, i);
}
pub assume_specification<T, F: FnOnce(T) -> bool>[ Option::<T>::is_none_or ](o: Option<T>, f: F) -> (r: bool)
    requires o matches Some(x) ==> f.requires((x,)),
    ensures o is None ==> r, o matches Some(x) ==> f.ensures((x,), r);
impl U256 { pub const ZERO: U256 = U256(0); }

pub open spec fn latest_kind(mv: Map<LocationAndType, BTreeMap<MemoryEntry>>, loc: LocationAndType, txid: TxId, want_reset: bool) -> Option<TxId> {
    if mv.contains_key(loc) {
        match latest_before(mv[loc]@, txid) {
            Some(k) => if (want_reset && mv[loc]@[k].data is StorageReset) || (!want_reset && mv[loc]@[k].data is Storage) { Some(k) } else { None },
            None => None,
        }
    } else { None }
}
pub open spec fn ver_of(mv: Map<LocationAndType, BTreeMap<MemoryEntry>>, loc: LocationAndType, w: Option<TxId>) -> ReadVersion {
    match w { Some(k) => ReadVersion::MvMemory(TxVersion { txid: k, incarnation: mv[loc]@[k].incarnation }), None => ReadVersion::Storage }
}
pub open spec fn est(mv: Map<LocationAndType, BTreeMap<MemoryEntry>>, loc: LocationAndType, w: Option<TxId>) -> Set<TxId> {
    match w { Some(k) => if mv[loc]@[k].estimate { set![k] } else { Set::empty() }, None => Set::empty() }
}





pub fn max(a: usize, b: usize) -> (r: usize) ensures r == (if a >= b { a } else { b }) { if a >= b { a } else { b } }
pub assume_specification<T, U, F: FnOnce(T) -> U>[ Option::<T>::map_or ](o: Option<T>, d: U, f: F) -> (r: U)
    requires o matches Some(x) ==> f.requires((x,)),
    ensures o is None ==> r == d, o matches Some(x) ==> f.ensures((x,), r);
pub assume_specification<T, F: FnOnce(&T) -> bool>[ Option::<T>::filter ](o: Option<T>, f: F) -> (r: Option<T>)
    requires o matches Some(x) ==> f.requires((&x,)),
    ensures r is Some ==> r == o;
pub fn drop<T>(t: T) {}

#[verifier::external_body] proof fn axiom_loc_key_model() ensures vstd::std_specs::hash::obeys_key_model::<LocationAndType>() {}

// parking_lot Mutex stand-in
#[verifier::external_body] #[verifier::reject_recursive_types(T)] pub struct Mutex<T> { x: core::marker::PhantomData<T> }
#[verifier::external_body] #[verifier::reject_recursive_types(T)] pub struct MutexGuard<'a, T> { x: core::marker::PhantomData<&'a T> }
impl<'a, T> MutexGuard<'a, T> { pub uninterp spec fn view(&self) -> T; }
impl<T> Mutex<T> { #[verifier::external_body] pub fn lock(&self) -> (g: MutexGuard<'_, T>) { unimplemented!() } }
impl<'a, T> Deref for MutexGuard<'a, T> { type Target = T; #[verifier::external_body] fn deref(&self) -> (r: &T) ensures *r == self@ { unimplemented!() } }
impl<'a, T> DerefMut for MutexGuard<'a, T> { #[verifier::external_body] fn deref_mut(&mut self) -> (r: &mut T) ensures *r == old(self)@, *final(r) == final(self)@ { unimplemented!() } }

#[derive(Debug, Clone, Eq, PartialEq, Default, Structural)]
pub enum TransactionStatus { #[default] Initial, Executing, Executed, Validating, Unconfirmed, Conflict, Finality }
pub struct TxState { pub status: TransactionStatus, pub incarnation: usize, pub dependency: Option<TxId> }
pub enum EVMError<E> { Database(E), Custom(u8) }
pub struct SpeculativeResult { pub x: u64 }
pub struct TransactionResult<E> { pub read_set: HashMap<LocationAndType, ReadVersion>, pub write_set: HashSet<LocationAndType>, pub execute_result: Result<SpeculativeResult, EVMError<E>> }
pub enum Task { Execution(TxVersion), Validation(TxVersion) }
pub enum AbortReason { ParallelError { txid: TxId, message: &'static str }, FallbackSequential }

pub struct BeneficiaryValidation { pub valid: bool, pub dependency: Option<TxId> }
impl BeneficiaryValidation {
    pub fn is_valid(&self) -> (b: bool) ensures b == self.valid { self.valid }
    pub fn dependency(&self) -> (d: Option<TxId>) ensures d == self.dependency { self.dependency }
}
#[verifier::external_body] pub struct Beneficiary { p: u8 }
impl Beneficiary {
    pub uninterp spec fn chain_valid(&self, txid: TxId, e: BeneficiaryReadVersion) -> bool;
    #[verifier::external_body] pub fn validate(&self, txid: TxId, expected: &BeneficiaryReadVersion) -> (v: BeneficiaryValidation) ensures v.valid == self.chain_valid(txid, *expected), v.dependency matches Some(d) ==> d < txid { unimplemented!() }
    #[verifier::external_body] pub fn invalidate(&self, v: &TxVersion) -> bool { unimplemented!() }
}
#[verifier::external_body] pub struct Metrics { p: u8 }
impl Metrics { #[verifier::external_body] pub fn record_validation_attempt(&self) { unimplemented!() }  #[verifier::external_body] pub fn record_version_conflict(&self) { unimplemented!() } }
#[verifier::external_body] pub struct SchedulerContext { p: u8 }
impl SchedulerContext {
    pub uninterp spec fn stamp_taken(&self) -> bool;
    pub uninterp spec fn is_stamp(&self, t: usize) -> bool;
    #[verifier::external_body] pub fn logical_timestamp(&self) -> (t: usize) ensures self.is_stamp(t), self.stamp_taken() { unimplemented!() }
    #[verifier::external_body] pub fn rewind_validation_to(&self, i: usize) { unimplemented!() }
    #[verifier::external_body] pub fn unconfirmed(&self, i: usize, ts: usize) requires self.is_stamp(ts) { unimplemented!() }
    #[verifier::external_body] pub fn finality_idx(&self) -> usize { unimplemented!() }
}
#[verifier::external_body] pub struct TxDependency { p: u8 }
impl TxDependency { #[verifier::external_body] pub fn add(&self, txid: TxId, dep: Option<TxId>) requires dep matches Some(d) ==> d < txid { unimplemented!() } }
#[verifier::external_body] pub struct WaitSlot { p: u8 }
impl WaitSlot { #[verifier::external_body] pub fn notify(&self) { unimplemented!() } }

pub open spec fn valid_read(mv: Map<LocationAndType, BTreeMap<MemoryEntry>>, b: Beneficiary, txid: TxId, loc: LocationAndType, v: ReadVersion) -> bool {
    match v {
        ReadVersion::Beneficiary(e) => b.chain_valid(txid, e),
        _ => {
            let w = if mv.contains_key(loc) { latest_before(mv[loc]@, txid) } else { None };
            match w {
                Some(k) => !mv[loc]@[k].estimate && v == ReadVersion::MvMemory(TxVersion { txid: k, incarnation: mv[loc]@[k].incarnation }),
                None => v is Storage,
            }
        }
    }
}

#[verifier::reject_recursive_types(E)]
pub struct Scheduler<E> {
    pub tx_states: Vec<Mutex<TxState>>,
    pub tx_results: Vec<Mutex<Option<TransactionResult<E>>>>,
    pub tx_dependency: TxDependency,
    pub mv_memory: MVMemory,
    pub scheduler_ctx: SchedulerContext,
    pub finality_wait: WaitSlot,
    pub metrics: Metrics,
}
impl<E> Scheduler<E> {
    #[verifier::external_body] pub fn abort(&self, r: AbortReason) { unimplemented!() }
    #[verifier::external_body] pub fn mark_mv_estimate(&self, txid: TxId, ws: &HashSet<LocationAndType>) { unimplemented!() }

    #[verifier::loop_isolation(false)]
    fn validate(&self, beneficiary: &Beneficiary, tx_version: TxVersion) -> (task: Option<Task>) 
        requires tx_version.txid < self.tx_states.len(), self.tx_results.len() == self.tx_states.len(),
        ensures task is None,
    {
        let txid = tx_version.txid;
        let incarnation = tx_version.incarnation;
        let mut tx_state = self.tx_states[txid].lock();
        let tx_result = self.tx_results[txid].lock();
        if tx_state.status != TransactionStatus::Validating {
            return None;
        }
        if tx_state.incarnation != incarnation {
            self.abort(AbortReason::ParallelError {
                txid,
                message: "inconsistent incarnation during validation",
            });
            return None;
        }
        self.metrics.record_validation_attempt();
        let Some(result) = tx_result.as_ref() else {
            self.abort(AbortReason::ParallelError {
                txid,
                message: "transaction has no result during validation",
            });
            return None;
        };
        if result.execute_result.is_err() {
            self.abort(AbortReason::ParallelError {
                txid,
                message: "failed transaction reached validation",
            });
            return None;
        }

        // Capture the timestamp before scanning. A concurrent later rewind then has a newer lower
        // bound and prevents this validation from reaching finality.
        let ts = self.scheduler_ctx.logical_timestamp();
        // Every read must still resolve to the same latest preceding incarnation, and that write
        // must not be an estimate. A storage-origin read remains valid only when no preceding
        // multi-version write exists.
        let mut conflict = false;
        let mut dependency: Option<TxId> = None;
        proof { axiom_loc_key_model(); }
        let iter0_ = result.read_set.iter();
        let ghost all = iter0_.remaining();
        let ghost mut n: int = 0;
        proof { axiom_loc_key_model(); }
        proof { assert(self.scheduler_ctx.stamp_taken()); }
        for (location, version) in it: iter0_
            invariant
                it.snapshot@.remaining() == all, 0 <= it.index@ <= all.len(), n == it.index@,
                dependency matches Some(d) ==> d < txid,
                !conflict ==> forall|i: int| 0 <= i < n ==> valid_read(self.mv_memory@, *beneficiary, txid, *(#[trigger] all[i]).0, *all[i].1),
        {
            proof { assert(all[it.index@] == (location, version)); n = n + 1; }
            if let ReadVersion::Beneficiary(expected) = version {
                let validation = beneficiary.validate(txid, expected);
                if !validation.is_valid() {
                    conflict = true;
                }
                if let Some(previous_id) = validation.dependency() {
                    dependency = Some(dependency.map_or(previous_id, |d: TxId| -> (m: TxId) ensures m == (if d >= previous_id { d } else { previous_id }) { max(d, previous_id) }));
                }
            } else {

            if let Some(written_transactions) = self.mv_memory.get(location) {
                if let Some((previous_id, latest_version)) =
                    written_transactions.range(..txid).next_back()
                { let previous_id = *previous_id;
                    dependency = Some(dependency.map_or(previous_id, |d: TxId| -> (m: TxId) ensures m == (if d >= previous_id { d } else { previous_id }) { max(d, previous_id) }));
                    if latest_version.estimate {
                        conflict = true;
                    } else if let ReadVersion::MvMemory(version) = version {
                        if version.txid != previous_id ||
                            version.incarnation != latest_version.incarnation
                        {
                            conflict = true;
                        }
                    } else {
                        conflict = true;
                    }
                } else if !matches!(version, ReadVersion::Storage) {
                    conflict = true;
                }
            } else if !matches!(version, ReadVersion::Storage) {
                conflict = true;
            }
        }}
        if conflict {
            self.metrics.record_version_conflict();
            // Readers must not validate against writes produced by an invalid incarnation.
            self.mark_mv_estimate(txid, &result.write_set);
            if !beneficiary.invalidate(&tx_version) {
                self.abort(AbortReason::ParallelError {
                    txid,
                    message: "stale beneficiary history validation",
                });
                return None;
            }
        }

        // update transaction status
        tx_state.status = if conflict {
            self.scheduler_ctx.rewind_validation_to(txid + 1);
            TransactionStatus::Conflict
        } else {
            proof {
                assert(n == all.len());
                assert forall|loc: LocationAndType| result.read_set@.contains_key(loc) implies valid_read(self.mv_memory@, *beneficiary, txid, loc, #[trigger] result.read_set@[loc]) by {
                    let i = choose|i: int| 0 <= i < all.len() && *(#[trigger] all[i]).0 == loc;
                    assert(*all[i].1 == result.read_set@[loc]);
                }
            }
            self.scheduler_ctx.unconfirmed(txid, ts);
            TransactionStatus::Unconfirmed
        };
        tx_state.dependency = dependency;

        if conflict {
            // update dependency
            let dep_tx = dependency.filter(|dep_ref: &TxId| -> (b: bool) { let dep = *dep_ref; dep >= self.scheduler_ctx.finality_idx() });
            self.tx_dependency.add(txid, dep_tx);
        }
        drop(tx_result);
        drop(tx_state);
        if txid == self.scheduler_ctx.finality_idx() {
            self.finality_wait.notify();
        }
        None
    }
}
} // verus!
fn main() {}
