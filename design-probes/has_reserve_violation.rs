use vstd::prelude::*;
use vstd::std_specs::iter::IteratorSpec;
verus! {
pub type TxId = usize;
#[derive(PartialEq, Eq, Structural, Clone, Copy)] pub struct Address(pub u64);
#[derive(PartialEq, Eq, Structural, Clone, Copy)] pub struct U256(pub u128);
impl U256 {
    pub fn is_zero(&self) -> (b: bool) ensures b == (self.0 == 0) { self.0 == 0 }
    pub fn min(self, o: U256) -> (r: U256) ensures r == (if self.0 <= o.0 { self } else { o }) { if self.0 <= o.0 { self } else { o } }
}
impl PartialOrd for U256 { fn partial_cmp(&self, o: &U256) -> Option<std::cmp::Ordering> { self.0.partial_cmp(&o.0) } }
impl vstd::std_specs::cmp::PartialOrdSpecImpl for U256 {
    open spec fn obeys_partial_cmp_spec() -> bool { true }
    open spec fn partial_cmp_spec(&self, o: &U256) -> Option<std::cmp::Ordering> { if self.0 < o.0 { Some(std::cmp::Ordering::Less) } else if self.0 == o.0 { Some(std::cmp::Ordering::Equal) } else { Some(std::cmp::Ordering::Greater) } }
}
#[derive(Clone, Copy, PartialEq, Eq, Structural)]
pub struct DelegatedDebit { pub address: Address, pub balance_before: U256, pub final_balance: U256 }
#[derive(Clone, Copy)] pub struct JournalCheckpoint { pub x: usize }
pub struct TxEnv { pub x: u64 }
#[verifier::external_body] pub struct ReservePlanner { p: u8 }
impl ReservePlanner {
    pub uninterp spec fn req(&self, txid: TxId, a: Address) -> U256;
    #[verifier::external_body] pub fn required_after(&self, txid: TxId, a: Address) -> (r: U256) ensures r == self.req(txid, a) { unimplemented!() }
}
pub trait ReserveJournalExt {
    spec fn debits(&self, c: JournalCheckpoint) -> Seq<DelegatedDebit>;
    fn delegated_debits_since(&self, c: JournalCheckpoint, tx: &TxEnv) -> (v: Vec<DelegatedDebit>) ensures v@ == self.debits(c);
}
pub trait ContextTr { type Journal: ReserveJournalExt;
    spec fn journal_s(&self) -> Self::Journal;
    fn journal(&self) -> (j: &Self::Journal) ensures *j == self.journal_s();
    fn tx(&self) -> &TxEnv; }
pub trait EvmTr { type Context: ContextTr;
    spec fn ctx_s(&self) -> Self::Context;
    fn ctx_ref(&self) -> (c: &Self::Context) ensures *c == self.ctx_s(); }
pub open spec fn violates(p: &ReservePlanner, txid: TxId, c: DelegatedDebit) -> bool {
    let f = p.req(txid, c.address);
    f.0 != 0 && c.final_balance.0 < (if c.balance_before.0 <= f.0 { c.balance_before.0 } else { f.0 })
}
pub struct WithReserveHandler<'a, EVM, ERROR> { pub txid: TxId, pub planner: &'a ReservePlanner, pub p: core::marker::PhantomData<(EVM, ERROR)> }
impl<EVM: EvmTr, ERROR> WithReserveHandler<'_, EVM, ERROR> {
    #[verifier::loop_isolation(false)]
    fn has_reserve_violation(
        &self,
        evm: &mut EVM,
        checkpoint: JournalCheckpoint,
    ) -> (r: Result<bool, ERROR>) 
        ensures r matches Ok(b) && (b <==> exists|k: int| 0 <= k < old(evm).ctx_s().journal_s().debits(checkpoint).len() && violates(self.planner, self.txid, #[trigger] old(evm).ctx_s().journal_s().debits(checkpoint)[k])),
            *final(evm) == *old(evm),
    {
        // The journal helper excludes top-level transaction.value and ordinary contract debits.
        // Only surviving value movement from an EIP-7702 state context reaches this loop.
        let candidates =
            evm.ctx_ref().journal().delegated_debits_since(checkpoint, evm.ctx_ref().tx());
        if !candidates.is_empty() {
        }
        let ghost cs = candidates@;
        for candidate in it: candidates
            invariant forall|k: int| 0 <= k < it.index@ ==> !violates(self.planner, self.txid, #[trigger] cs[k]), it.snapshot@.remaining() == cs, 0 <= it.index@ <= cs.len(),
        {
            proof { assert(cs[it.index@] == candidate); }
            let future_cost = self.planner.required_after(self.txid, candidate.address);
            if future_cost.is_zero() {
            } else {
            // Never demand money the account did not have before delegated execution. If it was
            // already below the conservative future-cost sum, delegated execution may not make
            // that shortage worse, but unrelated filtering remains outside this policy.
            let required = candidate.balance_before.min(future_cost);
            if candidate.final_balance < required {
                return Ok(true);
            }
        }}
        Ok(false)
    }
}
} // verus!
fn main() {}
