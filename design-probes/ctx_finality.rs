use vstd::prelude::*;
use std::ops::{Deref, DerefMut};
verus! {
pub assume_specification<T>[ bool::then_some ](b: bool, t: T) -> (r: Option<T>)
    ensures r == (if b { Some(t) } else { None::<T> });
pub enum Ordering { Relaxed, Release, Acquire, AcqRel, SeqCst }
pub fn max(a: usize, b: usize) -> (r: usize) ensures r == (if a >= b { a } else { b }) { if a >= b { a } else { b } }

// ---- TRUSTED: atomics with monotone-fact (rely/guarantee) specs ----
#[verifier::external_body] pub struct AtomicUsize { p: u8 }
impl AtomicUsize {
    /// t was handed out by fetch_add on this clock
    pub uninterp spec fn is_stamp(&self, t: usize) -> bool;
    /// some fetch_max(v') with v' >= v has completed on this cell (monotone)
    pub uninterp spec fn published_ge(&self, v: usize) -> bool;
    /// v was observed by a load of this cell during the current call
    pub uninterp spec fn observed(&self, v: usize) -> bool;
    #[verifier::external_body] pub fn fetch_add(&self, d: usize, o: Ordering) -> (t: usize) requires d == 1, ensures self.is_stamp(t) { unimplemented!() }
    #[verifier::external_body] pub fn fetch_max(&self, v: usize, o: Ordering) -> (p: usize) ensures self.published_ge(v) { unimplemented!() }
    #[verifier::external_body] pub fn load(&self, o: Ordering) -> (v: usize) ensures self.observed(v) { unimplemented!() }
}
#[verifier::external_body] pub struct RewindableCursor { p: u8 }
impl RewindableCursor {
    pub uninterp spec fn observed(&self, v: usize) -> bool;
    #[verifier::external_body] pub fn rewind(&self, value: usize) -> (prev: usize) { unimplemented!() }
    #[verifier::external_body] pub fn get(&self) -> (v: usize) ensures self.observed(v) { unimplemented!() }
}

pub struct SchedulerContext {
    pub num_txs: usize,
    pub validation: RewindableCursor,
    pub validation_resets: AtomicUsize,
    pub logical_clock: AtomicUsize,
    pub lower_timestamps: Vec<AtomicUsize>,
    pub unconfirmed_timestamps: Vec<AtomicUsize>,
}
impl SchedulerContext {
    pub open spec fn wf(&self) -> bool { self.lower_timestamps.len() == self.num_txs && self.unconfirmed_timestamps.len() == self.num_txs }

    pub fn rewind_validation_to(&self, index: usize)  requires self.wf(), {
        if index >= self.num_txs {
            return;
        }
        // Publish invalidation before making the index claimable. Finality advances contiguously
        // and checks status plus this timestamp under transaction locks, so a validation predating
        // this rewind cannot enter the stable prefix afterward.
        let timestamp = self.logical_clock.fetch_add(1, Ordering::AcqRel);
        self.lower_timestamps[index].fetch_max(timestamp, Ordering::AcqRel);
        proof { assert(self.lower_timestamps@[index as int].published_ge(timestamp) && self.logical_clock.is_stamp(timestamp)); }
        let previous = self.validation.rewind(index);
        if previous > index {
            self.validation_resets.fetch_add(1, Ordering::Relaxed);
        }
    }
    pub fn logical_timestamp(&self) -> (t: usize)  ensures self.logical_clock.is_stamp(t), {
        self.logical_clock.fetch_add(1, Ordering::AcqRel)
    }
    pub fn unconfirmed(&self, index: usize, timestamp: usize)  requires self.wf(), index < self.num_txs, {
        self.unconfirmed_timestamps[index].fetch_max(timestamp, Ordering::AcqRel);
    }
    pub fn lower_timestamp(&self, index: usize) -> (r: usize)  requires self.wf(), index < self.num_txs, ensures self.lower_timestamps@[index as int].observed(r), {
        self.lower_timestamps[index].load(Ordering::Acquire)
    }
    pub fn unconfirmed_timestamp(&self, index: usize) -> (r: usize)  requires self.wf(), index < self.num_txs, ensures self.unconfirmed_timestamps@[index as int].observed(r), {
        self.unconfirmed_timestamps[index].load(Ordering::Acquire)
    }
    pub fn validation_idx(&self) -> (r: usize)  ensures self.validation.observed(r), {
        self.validation.get()
    }
}

// ---- TRUSTED: parking_lot mutex stand-in ----
#[verifier::external_body] #[verifier::reject_recursive_types(T)] pub struct Mutex<T> { x: core::marker::PhantomData<T> }
#[verifier::external_body] #[verifier::reject_recursive_types(T)] pub struct MutexGuard<'a, T> { x: core::marker::PhantomData<&'a T> }
impl<'a, T> MutexGuard<'a, T> { pub uninterp spec fn view(&self) -> T; pub uninterp spec fn of(&self) -> &'a Mutex<T>; }
impl<T> Mutex<T> { #[verifier::external_body] pub fn lock(&self) -> (g: MutexGuard<'_, T>) ensures g.of() == self { unimplemented!() } }
impl<'a, T> Deref for MutexGuard<'a, T> { type Target = T; #[verifier::external_body] fn deref(&self) -> (r: &T) ensures *r == self@ { unimplemented!() } }

#[derive(Debug, Clone, Eq, PartialEq, Default, Structural)]
pub enum TransactionStatus { #[default] Initial, Executing, Executed, Validating, Unconfirmed, Conflict, Finality }
pub struct TxState { pub status: TransactionStatus, pub incarnation: usize, pub dependency: Option<usize> }

pub struct Scheduler { pub block_size: usize, pub tx_states: Vec<Mutex<TxState>>, pub scheduler_ctx: SchedulerContext }
impl Scheduler {
    pub open spec fn wf(&self) -> bool { self.scheduler_ctx.wf() && self.scheduler_ctx.num_txs == self.block_size && self.tx_states.len() == self.block_size }
    fn lock_finality_candidate(
        &self,
        finality_idx: usize,
        lower_ts: usize,
    ) -> (r: Option<(MutexGuard<'_, TxState>, usize)>) 
        requires self.wf(),
        ensures r matches Some((g, e)) ==> {
            &&& finality_idx < self.block_size
            &&& g.of() == &self.tx_states@[finality_idx as int]
            &&& g@.status == TransactionStatus::Unconfirmed
            &&& exists|v: usize| self.scheduler_ctx.validation.observed(v) && finality_idx < v
            &&& exists|l: usize, u: usize| #![auto] self.scheduler_ctx.lower_timestamps@[finality_idx as int].observed(l)
                    && self.scheduler_ctx.unconfirmed_timestamps@[finality_idx as int].observed(u)
                    && e == (if lower_ts >= l { lower_ts } else { l }) && u > e
        },
    {
        if finality_idx >= self.block_size || finality_idx >= self.scheduler_ctx.validation_idx() {
            return None;
        }
        // Read the validation frontier first, then decide status and timestamp eligibility under
        // the transaction lock. Together with contiguous finality, this prevents a candidate from
        // passing a rewind that invalidates it or an earlier transaction.
        let tx_state = self.tx_states[finality_idx].lock();
        if tx_state.status != TransactionStatus::Unconfirmed {
            return None;
        }

        // Carry the largest rewind timestamp through the contiguous prefix: every later candidate
        // must have been validated after that rewind as well.
        let effective_lower_ts = max(lower_ts, self.scheduler_ctx.lower_timestamp(finality_idx));
        (self.scheduler_ctx.unconfirmed_timestamp(finality_idx) > effective_lower_ts)
            .then_some((tx_state, effective_lower_ts))
    }
}
} // verus!
fn main() {}
