use vstd::prelude::*;
verus! {
pub type TxId = usize;
#[derive(PartialEq, Eq, Structural, Clone, Copy)] pub struct Address(pub u64);
pub struct AccountInfo { pub nonce: u64 }
#[derive(PartialEq, Eq, Structural)] pub struct TxEnv { pub caller: Address, pub nonce: u64 }
#[derive(PartialEq, Eq, Structural, Clone, Copy)] pub enum InvalidTransaction { NonceOverflowInTransaction, Other(u8) }
pub enum EVMError<E> { Transaction(InvalidTransaction), Database(E), Custom(u8) }
impl<E> From<InvalidTransaction> for EVMError<E> { fn from(x: InvalidTransaction) -> (r: Self) { EVMError::Transaction(x) } }
impl<E> vstd::std_specs::convert::FromSpecImpl<InvalidTransaction> for EVMError<E> { open spec fn obeys_from_spec() -> bool { true } open spec fn from_spec(x: InvalidTransaction) -> Self { EVMError::Transaction(x) } }
pub trait DBErrorMarker {}
impl<E: DBErrorMarker> From<E> for EVMError<E> { fn from(x: E) -> (r: Self) { EVMError::Database(x) } }
impl<E: DBErrorMarker> vstd::std_specs::convert::FromSpecImpl<E> for EVMError<E> { open spec fn obeys_from_spec() -> bool { true } open spec fn from_spec(x: E) -> Self { EVMError::Database(x) } }
pub struct GrevmError<E> { pub txid: usize, pub error: EVMError<E> }
pub struct ExecutionResult { pub gas: u64 }
pub enum TxExecutionOutcome { Executed(ExecutionResult), Skipped(InvalidTransaction) }
pub struct SequentialReplayOutput<E> { pub outcomes: Vec<TxExecutionOutcome>, pub error: Option<GrevmError<E>> }
pub assume_specification<T, U, F: FnOnce(T) -> U>[ Option::<T>::map_or ](o: Option<T>, d: U, f: F) -> (r: U)
    requires o matches Some(x) ==> f.requires((x,)),
    ensures o is None ==> r == d, o matches Some(x) ==> f.ensures((x,), r);
pub trait DatabaseRef { type Error: DBErrorMarker;
    spec fn basic_s(&self, a: Address) -> Result<Option<AccountInfo>, Self::Error>;
    fn basic_ref(&self, a: Address) -> (r: Result<Option<AccountInfo>, Self::Error>) ensures r == self.basic_s(a); }
#[verifier::external_body] pub struct Metrics { p: u8 }
impl Metrics { #[verifier::external_body] pub fn record_execution_attempt(&self) { unimplemented!() } }
pub open spec fn outcome_ok(o: TxExecutionOutcome) -> bool { true }

#[verifier::reject_recursive_types(DB)]
pub struct Scheduler<DB: DatabaseRef> { pub block_size: usize, pub txs: Vec<TxEnv>, pub metrics: Metrics, pub p: core::marker::PhantomData<DB> }
impl<DB: DatabaseRef> Scheduler<DB> {
    pub open spec fn wf(&self) -> bool { self.txs.len() == self.block_size }
    fn execute_sequential_suffix(
        &self,
        start: TxId,
        mut transact: impl FnMut(TxId, &TxEnv) -> Result<ExecutionResult, EVMError<DB::Error>>,
    ) -> (r: SequentialReplayOutput<DB::Error>) 
        requires self.wf(), start <= self.block_size,
            // call permission: only the global txid with its own transaction (C13/C06: same logical index on both paths)
            forall|i: TxId, t: &TxEnv| (start <= i < self.block_size && *t == self.txs@[i as int]) ==> #[trigger] transact.requires((i, t)),
        ensures
            r.error matches Some(e) ==> e.txid == start + r.outcomes.len() && e.txid < self.block_size && !(e.error is Transaction),
            r.error is None ==> r.outcomes.len() == self.block_size - start,
    {
        let mut outcomes = Vec::with_capacity(self.block_size - start);
        for txid in start..self.block_size
            invariant self.wf(), start <= self.block_size, outcomes.len() == txid - start,
                forall|i: TxId, t: &TxEnv| (start <= i < self.block_size && *t == self.txs@[i as int]) ==> #[trigger] transact.requires((i, t)),
                forall|k: int| 0 <= k < outcomes.len() ==> outcome_ok(#[trigger] outcomes@[k]),
        {
            let outcome = match transact(txid, &self.txs[txid]) {
                Ok(result) => TxExecutionOutcome::Executed(result),
                Err(EVMError::Transaction(error)) => {
                    TxExecutionOutcome::Skipped(error)
                }
                Err(error) => {
                    return SequentialReplayOutput {
                        outcomes,
                        error: Some(GrevmError { txid, error }),
                    };
                }
            };
            outcomes.push(outcome);
            self.metrics.record_execution_attempt();
        }
        SequentialReplayOutput { outcomes, error: None }
    }
}
fn reject_nonce_overflow<DB: DatabaseRef>(
    db: &DB,
    disable_nonce_check: bool,
    tx: &TxEnv,
) -> (r: Result<(), EVMError<DB::Error>>) 
    ensures disable_nonce_check ==> r is Ok,
        !disable_nonce_check && tx.nonce != u64::MAX ==> r is Ok,
        !disable_nonce_check && tx.nonce == u64::MAX ==> (match db.basic_s(tx.caller) {
            Err(e) => r is Err,
            Ok(Some(i)) => if i.nonce == u64::MAX { r matches Err(EVMError::Transaction(InvalidTransaction::NonceOverflowInTransaction)) } else { r is Ok },
            Ok(None) => r is Ok }),
{
    // revm increments the sender nonce with saturating arithmetic. Detect MAX explicitly so
    // sequential recovery preserves the protocol's nonce-overflow invalid classification.
    if !disable_nonce_check &&
        tx.nonce == u64::MAX &&
        db.basic_ref(tx.caller)?.map_or(0, |info: AccountInfo| -> (n: u64) ensures n == info.nonce { info.nonce }) == u64::MAX
    {
        return Err(InvalidTransaction::NonceOverflowInTransaction.into());
    }
    Ok(())
}
} // verus!
fn main() {}
