use vstd::prelude::*;
verus! {
#[derive(PartialEq, Eq, Structural, Clone, Copy)] pub struct Address(pub u64);
#[derive(PartialEq, Eq, Structural, Clone, Copy)] pub struct U256(pub u128);
impl From<u128> for U256 { fn from(x: u128) -> (r: U256) { U256(x) } }
impl vstd::std_specs::convert::FromSpecImpl<u128> for U256 { open spec fn obeys_from_spec() -> bool { true } open spec fn from_spec(x: u128) -> U256 { U256(x) } }
#[derive(PartialEq, Eq, Structural, Clone, Copy)]
pub enum SpecId { FRONTIER, LONDON, PRAGUE }
impl SpecId {
    pub uninterp spec fn enabled(self, o: SpecId) -> bool;
    #[verifier::external_body] pub fn is_enabled_in(self, o: SpecId) -> (b: bool) ensures b == self.enabled(o) { unimplemented!() }
    pub fn clone(&self) -> (r: Self) ensures r == *self { *self }
}
#[derive(PartialEq, Eq, Structural, Clone, Copy)] pub struct CfgSpec(pub SpecId);
impl CfgSpec { pub fn clone(&self) -> (r: Self) ensures r == *self { *self } }
impl From<CfgSpec> for SpecId { fn from(x: CfgSpec) -> (r: SpecId) { x.0 } }
impl vstd::std_specs::convert::FromSpecImpl<CfgSpec> for SpecId { open spec fn obeys_from_spec() -> bool { true } open spec fn from_spec(x: CfgSpec) -> SpecId { x.0 } }
broadcast use {axiom_into_is_id, axiom_clone_keeps_id};
pub struct Gas { pub used_: u64, pub reservoir_: u64 }
impl Gas { pub fn used(&self) -> (r: u64) ensures r == self.used_ { self.used_ } pub fn reservoir(&self) -> (r: u64) ensures r == self.reservoir_ { self.reservoir_ } }
// shared, uninterpreted context accessors (same on both sides)
pub trait Cfg { type Spec: Into<SpecId> + Clone + SpecOf;
    spec fn fee_disabled(&self) -> bool; spec fn spec_id(&self) -> SpecId;
    fn is_fee_charge_disabled(&self) -> (b: bool) ensures b == self.fee_disabled();
    fn spec(&self) -> (s: Self::Spec) ensures s.id() == self.spec_id(); }
pub trait SpecOf { spec fn id(&self) -> SpecId; }
#[verifier::external_body] pub broadcast proof fn axiom_clone_keeps_id<S: Clone + SpecOf>(s: &S, r: S) ensures #[trigger] call_ensures(S::clone, (s,), r) ==> r.id() == s.id() {}

#[verifier::external_body] pub broadcast proof fn axiom_into_is_id<S: Into<SpecId> + SpecOf>(s: S, r: SpecId) ensures #[trigger] call_ensures(S::into, (s,), r) ==> r == s.id() {}

pub trait Block { spec fn basefee_spec(&self) -> u64; spec fn beneficiary_spec(&self) -> Address;
    fn basefee(&self) -> (b: u64) ensures b == self.basefee_spec();
    fn beneficiary(&self) -> (a: Address) ensures a == self.beneficiary_spec(); }
pub trait Transaction { spec fn egp(&self, basefee: u128) -> u128;
    fn effective_gas_price(&self, basefee: u128) -> (p: u128) ensures p == self.egp(basefee); }
pub struct JournaledAccount<'a> { pub addr: Address, pub credited: &'a mut Seq<(Address, U256)> }
impl<'a> JournaledAccount<'a> {
    #[verifier::external_body] pub fn incr_balance(&mut self, x: U256) -> bool ensures *final(self).credited == old(self).credited.push((old(self).addr, x)), final(self).addr == old(self).addr { unimplemented!() }
}
pub trait JournalTr { 
    spec fn credits(&self) -> Seq<(Address, U256)>;
    /// load + credit, fused (stand-in for `load_account_mut(a)?.incr_balance(x)`)
    fn load_account_mut(&mut self, a: Address) -> (r: Result<JournaledAccount<'_>, u8>)
        ensures r matches Ok(j) ==> j.addr == a && *j.credited == old(self).credits() && final(self).credits() == *final(j.credited),
                r is Err ==> final(self).credits() == old(self).credits();
}
pub trait Database { type Error; }

pub trait ContextTr {
    type Cfg: Cfg; type Block: Block; type Tx: Transaction; type Journal: JournalTr; type Db: Database;
    spec fn cfg_s(&self) -> Self::Cfg; spec fn block_s(&self) -> Self::Block; spec fn tx_s(&self) -> Self::Tx;
    fn cfg(&self) -> (r: &Self::Cfg) ensures *r == self.cfg_s();
    fn block(&self) -> (r: &Self::Block) ensures *r == self.block_s();
    fn tx(&self) -> (r: &Self::Tx) ensures *r == self.tx_s();
    spec fn journal_s(&self) -> Self::Journal;
    fn all_mut(&mut self) -> (r: (&Self::Block, &Self::Tx, &Self::Cfg, &mut Self::Journal, &mut u8, &mut u8))
        ensures *r.0 == old(self).block_s(), *r.1 == old(self).tx_s(), *r.2 == old(self).cfg_s(), *r.3 == old(self).journal_s(),
            final(self).journal_s() == *final(r.3), final(self).cfg_s() == old(self).cfg_s(), final(self).block_s() == old(self).block_s(), final(self).tx_s() == old(self).tx_s();
}
pub struct BeneficiaryReward(pub U256);
impl BeneficiaryReward {
    fn from_gas<CTX>(context: &CTX, gas: &Gas) -> (r: Option<Self>)
    where
        CTX: ContextTr,
    
        requires ({ let bf = context.block_s().basefee_spec() as u128; let egp = context.tx_s().egp(bf);
                    let p = if context.cfg_s().spec_id().enabled(SpecId::LONDON) { if egp >= bf { (egp - bf) as u128 } else { 0u128 } } else { egp };
                    let u = if gas.used_ >= gas.reservoir_ { (gas.used_ - gas.reservoir_) as u64 } else { 0u64 };
                    p * (u as u128) <= u128::MAX }),
        ensures r == reward_spec(context.cfg_s().fee_disabled(), context.cfg_s().spec_id(), context.block_s().basefee_spec(), context.tx_s().egp(context.block_s().basefee_spec() as u128), gas.used_, gas.reservoir_),
    {
        if context.cfg().is_fee_charge_disabled() {
            return None;
        }

        let basefee = context.block().basefee() as u128;
        let effective_gas_price = context.tx().effective_gas_price(basefee);
        let spec: SpecId = context.cfg().spec().clone().into();
        let beneficiary_gas_price = if spec.is_enabled_in(SpecId::LONDON) {
            effective_gas_price.saturating_sub(basefee)
        } else {
            effective_gas_price
        };
        let effective_used = gas.used().saturating_sub(gas.reservoir());

        // Keep arithmetic identical to revm's reward hook.
        Some(Self(U256::from(beneficiary_gas_price * effective_used as u128)))
    }
}

pub fn reward_beneficiary<CTX: ContextTr>(
    context: &mut CTX,
    gas: &Gas,
) -> (r: Result<(), u8>) 
    requires ({ let bf = old(context).block_s().basefee_spec() as u128; let egp = old(context).tx_s().egp(bf);
                let p = if old(context).cfg_s().spec_id().enabled(SpecId::LONDON) { if egp >= bf { (egp - bf) as u128 } else { 0u128 } } else { egp };
                let u = if gas.used_ >= gas.reservoir_ { (gas.used_ - gas.reservoir_) as u64 } else { 0u64 };
                p * (u as u128) <= u128::MAX }),
    ensures ({ let want = reward_spec(old(context).cfg_s().fee_disabled(), old(context).cfg_s().spec_id(), old(context).block_s().basefee_spec(), old(context).tx_s().egp(old(context).block_s().basefee_spec() as u128), gas.used_, gas.reservoir_);
        match want {
            None => final(context).journal_s().credits() == old(context).journal_s().credits(),
            Some(rw) => r is Ok ==> final(context).journal_s().credits() == old(context).journal_s().credits().push((old(context).block_s().beneficiary_spec(), rw.0)),
        } }),
{
    // If fee charge was disabled (e.g. eth_call simulations), the caller was
    // never charged for gas so there are no fees to transfer to the beneficiary.
    if context.cfg().is_fee_charge_disabled() {
        return Ok(());
    }
    let (block, tx, cfg, journal, _, _) = context.all_mut();
    let basefee = block.basefee() as u128;
    let effective_gas_price = tx.effective_gas_price(basefee);

    // Transfer fee to coinbase/beneficiary.
    // EIP-1559 discard basefee for coinbase transfer. Basefee amount of gas is discarded.
    let coinbase_gas_price = if cfg.spec().into().is_enabled_in(SpecId::LONDON) {
        effective_gas_price.saturating_sub(basefee)
    } else {
        effective_gas_price
    };

    // Reward beneficiary.
    // Exclude reservoir gas (EIP-8037) from the used gas — reservoir is unused and reimbursed.
    let effective_used = gas.used().saturating_sub(gas.reservoir());
    journal
        .load_account_mut(block.beneficiary())?
        .incr_balance(U256::from(coinbase_gas_price * effective_used as u128));

    Ok(())
}
pub open spec fn reward_spec(disabled: bool, spec: SpecId, basefee: u64, egp: u128, used: u64, reservoir: u64) -> Option<BeneficiaryReward> {
    if disabled { None } else {
        let bf = basefee as u128;
        let p = if spec.enabled(SpecId::LONDON) { if egp >= bf { (egp - bf) as u128 } else { 0u128 } } else { egp };
        let u = if used >= reservoir { (used - reservoir) as u64 } else { 0u64 };
        Some(BeneficiaryReward(U256((p * (u as u128)) as u128)))
    }
}
} // verus!
fn main() {}
