use vstd::prelude::*;
use std::collections::{HashMap, HashSet};
use vstd::std_specs::iter::IteratorSpec;
verus! {
#[verifier::loop_isolation(false)]
fn all7(m: &HashMap<u64, u64>) -> (c: bool)
    ensures c <==> forall|k: u64| m@.contains_key(k) ==> #[trigger] m@[k] == 7
{
    let mut bad = false;
    let iter0 = m.iter();
    let ghost all = iter0.remaining();
    let ghost mut n: int = 0;
    for (k, v) in it: iter0
        invariant
          it.snapshot@.remaining() == all,
          0 <= it.index@ <= all.len(), n == it.index@,
          bad <==> exists|i: int| 0 <= i < it.index@ && *(#[trigger] all[i]).1 != 7,
    {
        assert(all[it.index@] == (k, v));
        if *v != 7 { bad = true; }
        proof { n = n + 1; }
    }
    assert(n == all.len());
    proof {
        if !bad {
            assert forall|k: u64| m@.contains_key(k) implies #[trigger] m@[k] == 7 by {
                let i = choose|i: int| 0 <= i < all.len() && *(#[trigger] all[i]).0 == k;
                assert(*all[i].1 == m@[k]);
            }
        } else {
            let i = choose|i: int| 0 <= i < n && *(#[trigger] all[i]).1 != 7;
            assert(m@.contains_key(*all[i].0) && m@[*all[i].0] == *all[i].1);
        }
    }
    !bad
}
} // verus!
fn main() {}
