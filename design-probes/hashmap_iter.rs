use vstd::prelude::*;
use std::collections::{HashMap, HashSet};
use vstd::std_specs::iter::IteratorSpec;
verus! {
fn hm(m: &HashMap<u64, u64>) -> (c: bool)
    ensures c <==> exists|k: u64| m@.contains_key(k) && #[trigger] m@[k] == 7
{
    let mut c = false;
    for (k, v) in it: m.iter()
        invariant 
          it.history@ + it.iter.remaining() == it.snapshot@.remaining(),
          c <==> exists|i: int| 0 <= i < it.history@.len() && *(#[trigger] it.history@[i]).1 == 7,
    {
        if *v == 7 { c = true; }
    }
    proof {
        let s = it_done(m);
    }
    c
}
proof fn it_done(m: &HashMap<u64,u64>) -> bool { true }

fn hm3(m: &HashMap<u64, u64>) {
    let it = m.iter();
    assert(it.remaining().len() == m@.len());
    assert(it.remaining().no_duplicates());
    assert(forall|i: int| 0 <= i < it.remaining().len() ==> m@.contains_key(*(#[trigger] it.remaining()[i]).0) && m@[*it.remaining()[i].0] == *it.remaining()[i].1);
}
} // verus!
fn main() {}
